#![no_main]
use libfuzzer_sys::fuzz_target;

fuzz_target!(|data: &[u8]| {
  let which = if std::env::var("PV_FUZZ_PROP").map(|p| p == "C10").unwrap_or(false) { pv::dag::Tag::C10 } else { pv::dag::Tag::C11 };
  pv::fuzz::dag_target(data, which);
});
