#![no_main]
use libfuzzer_sys::fuzz_target;

fuzz_target!(init: { pv::driver::install_quiet_panic_hook_keep_abort(); }, |data: &[u8]| {
  pv::fuzz::history_target(data);
});
