pub mod driver;
pub mod dag;
pub mod props;
