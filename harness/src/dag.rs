//! C10 / C11: operation sequences on `pie_graph::DAG` against a naive reference graph.

use std::cmp::Ordering;
use std::collections::{BTreeSet, HashMap};

use pie_graph::{Error, Node, DAG};
use proptest::prelude::*;
use serde::{Deserialize, Serialize};

use crate::driver::{pick, Stats};

#[derive(Clone, Debug, Serialize, Deserialize, PartialEq, Eq, Hash)]
pub enum DagOp {
  AddNode,
  AddEdge { s: u16, d: u16, data: u8 },
  /// Re-add the k-th existing edge (model order) with different data.
  ReAdd { k: u16, data: u8 },
  RemEdge { s: u16, d: u16 },
  /// Remove the k-th existing edge.
  RemExisting { k: u16 },
  RemOut { s: u16 },
  RemNode { s: u16 },
  /// One query, compared with the reference on the spot (no sweep): kind 0 contains_transitive_edge, 1 contains_edge,
  /// 2 get_edge_data, 3 topo_cmp, 4 descendants(a), 5 descendants_unsorted(a), 6 outgoing(a), 7 incoming(a),
  /// 8 / 9 descendants(a) / descendants_unsorted(a) consumed lazily with a complete traversal from b started in the middle.
  Q { kind: u8, a: u16, b: u16 },
  /// Repeat the k-th most recent query (same kind, same nodes).
  QAgain { k: u8 },
  /// n times: add a->b, remove it, add b->a, remove it (every insertion after the first reorders; only a and b are touched).
  Flip { a: u16, b: u16, n: u16 },
}

#[derive(Clone, Debug, Serialize, Deserialize, PartialEq, Eq, Hash)]
pub struct DagCase {
  pub init: u8,
  pub ops: Vec<DagOp>,
  /// 0 = all queries for all pairs after every operation; k > 0 = that sweep only after every k-th operation and at the
  /// end, so that the generated single queries meet state left behind by earlier queries and mutators.
  #[serde(default)]
  pub sweep_every: u8,
}

pub fn pretty(c: &DagCase) -> String {
  let mut s = format!("init {} nodes, sweep every {};", c.init, c.sweep_every);
  for op in &c.ops {
    s.push(' ');
    s.push_str(&match op {
      DagOp::AddNode => "N+".to_string(),
      DagOp::AddEdge { s, d, data } => format!("E({:#x}>{:#x},{})", s, d, data),
      DagOp::ReAdd { k, data } => format!("ReAdd({:#x},{})", k, data),
      DagOp::RemEdge { s, d } => format!("E-({:#x}>{:#x})", s, d),
      DagOp::RemExisting { k } => format!("E-k({:#x})", k),
      DagOp::RemOut { s } => format!("Out-({:#x})", s),
      DagOp::RemNode { s } => format!("N-({:#x})", s),
      DagOp::Q { kind, a, b } => format!("Q{}({:#x},{:#x})", kind, a, b),
      DagOp::QAgain { k } => format!("Q^{}", k),
      DagOp::Flip { a, b, n } => format!("Flip({:#x},{:#x} x{})", a, b, n),
    });
  }
  s
}

pub fn op_strategy() -> impl Strategy<Value=DagOp> {
  prop_oneof![
    1 => Just(DagOp::AddNode),
    9 => (any::<u16>(), any::<u16>(), 0u8..4).prop_map(|(s, d, data)| DagOp::AddEdge { s, d, data }),
    2 => (any::<u16>(), 4u8..8).prop_map(|(k, data)| DagOp::ReAdd { k, data }),
    1 => (any::<u16>(), any::<u16>()).prop_map(|(s, d)| DagOp::RemEdge { s, d }),
    2 => any::<u16>().prop_map(|k| DagOp::RemExisting { k }),
    1 => any::<u16>().prop_map(|s| DagOp::RemOut { s }),
    1 => any::<u16>().prop_map(|s| DagOp::RemNode { s }),
    4 => (prop_oneof![3 => Just(0u8), 2 => 1u8..8, 1 => 8u8..10], any::<u16>(), any::<u16>()).prop_map(|(kind, a, b)| DagOp::Q { kind, a, b }),
    3 => (0u8..4).prop_map(|k| DagOp::QAgain { k }),
  ]
}

pub fn case_strategy(max_init: u8, max_ops: usize) -> impl Strategy<Value=DagCase> {
  (2u8..=max_init, proptest::collection::vec(op_strategy(), 0..=max_ops), prop_oneof![2 => Just(0u8), 1 => Just(255u8), 1 => 2u8..9]).prop_map(|(init, ops, sweep_every)| DagCase { init, ops, sweep_every })
}

/// Long histories on a small graph: hundreds to thousands of insertions and removals (most insertions reorder), with the
/// full sweep only every 16th operation. Reaches state that only builds up over many operations (counters, caches,
/// free lists).
pub fn long_case_strategy(max_init: u8, min_ops: usize, max_ops: usize) -> impl Strategy<Value=DagCase> {
  let op = prop_oneof![
    1 => Just(DagOp::AddNode),
    10 => (any::<u16>(), any::<u16>(), 0u8..4).prop_map(|(s, d, data)| DagOp::AddEdge { s, d, data }),
    7 => any::<u16>().prop_map(|k| DagOp::RemExisting { k }),
    1 => any::<u16>().prop_map(|s| DagOp::RemOut { s }),
    1 => (0u8..1, any::<u16>(), any::<u16>()).prop_map(|(kind, a, b)| DagOp::Q { kind, a, b }),
    1 => (any::<u16>(), any::<u16>(), 1u16..200).prop_map(|(a, b, n)| DagOp::Flip { a, b, n }),
  ];
  (3u8..=max_init, proptest::collection::vec(op, min_ops..=max_ops)).prop_map(|(init, ops)| DagCase { init, ops, sweep_every: 16 })
}

// ---------------------------------------------------------------------------------------------------------------------
// Reference model

#[derive(Clone, Default, Debug, PartialEq, Eq)]
struct MNode {
  live: bool,
  out: Vec<(usize, u8)>,
  inc: Vec<usize>,
}

#[derive(Clone, Default, Debug)]
struct Model {
  nodes: Vec<MNode>,
}

impl Model {
  fn live(&self, i: usize) -> bool { self.nodes[i].live }
  fn has_edge(&self, s: usize, d: usize) -> bool { self.nodes[s].out.iter().any(|(x, _)| *x == d) }
  fn edge_data(&self, s: usize, d: usize) -> Option<u8> { self.nodes[s].out.iter().find(|(x, _)| *x == d).map(|(_, v)| *v) }
  fn reach_set(&self, s: usize) -> BTreeSet<usize> {
    let mut seen = BTreeSet::new();
    let mut stack: Vec<usize> = self.nodes[s].out.iter().map(|(d, _)| *d).collect();
    while let Some(n) = stack.pop() {
      if seen.insert(n) { stack.extend(self.nodes[n].out.iter().map(|(d, _)| *d)); }
    }
    seen
  }
  /// Shortest path length (in edges) from s to d, if any.
  fn dist(&self, s: usize, d: usize) -> Option<usize> {
    let mut dist = vec![usize::MAX; self.nodes.len()];
    let mut q = std::collections::VecDeque::new();
    dist[s] = 0;
    q.push_back(s);
    while let Some(n) = q.pop_front() {
      for (c, _) in &self.nodes[n].out {
        if dist[*c] == usize::MAX { dist[*c] = dist[n] + 1; q.push_back(*c); }
      }
    }
    if dist[d] == usize::MAX { None } else { Some(dist[d]) }
  }
  fn edges(&self) -> Vec<(usize, usize)> {
    let mut v = vec![];
    for (s, n) in self.nodes.iter().enumerate() { for (d, _) in &n.out { v.push((s, *d)); } }
    v
  }
  fn remove_edge(&mut self, s: usize, d: usize) -> Option<u8> {
    let pos = self.nodes[s].out.iter().position(|(x, _)| *x == d)?;
    let (_, data) = self.nodes[s].out.remove(pos);
    let ipos = self.nodes[d].inc.iter().position(|x| *x == s).expect("model symmetric");
    self.nodes[d].inc.remove(ipos);
    Some(data)
  }
  fn live_count(&self) -> usize { self.nodes.iter().filter(|n| n.live).count() }
}

// ---------------------------------------------------------------------------------------------------------------------
// Observation of the real graph

#[derive(Clone, Debug, PartialEq, Eq)]
struct Obs {
  len: usize,
  rank: Vec<Option<u32>>,
  out: Vec<Vec<(usize, u8)>>,
  inc: Vec<Vec<(usize, u8)>>,
}

struct Sut {
  dag: DAG<u32, u8>,
  ids: Vec<Node>,
  idx: HashMap<Node, usize>,
}

impl Sut {
  fn new() -> Self { Self { dag: DAG::new(), ids: vec![], idx: HashMap::new() } }
  fn add_node(&mut self) {
    let i = self.ids.len();
    let n = self.dag.add_node(i as u32);
    self.ids.push(n);
    self.idx.insert(n, i);
  }
  fn ix(&self, n: &Node) -> usize { *self.idx.get(n).unwrap_or(&usize::MAX) }
  fn observe(&self) -> Obs {
    let mut rank = vec![None; self.ids.len()];
    for (r, n) in self.dag.iter_unsorted() {
      let i = self.ix(&n);
      if i < rank.len() { rank[i] = Some(r); }
    }
    let out = self.ids.iter().map(|n| self.dag.get_outgoing_edges(n).map(|(d, e)| (self.ix(d), *e)).collect()).collect();
    let inc = self.ids.iter().map(|n| self.dag.get_incoming_edges(n).map(|(s, e)| (self.ix(s), *e)).collect()).collect();
    Obs { len: self.dag.len(), rank, out, inc }
  }
}

/// Which property an assertion belongs to.
#[derive(Clone, Copy, PartialEq, Eq, Debug)]
pub enum Tag { C10, C11 }

#[derive(Default, Debug, Clone)]
pub struct DagFacts {
  pub reorders: u64,
  pub max_moved: u64,
  pub cycles_rejected: u64,
  pub long_cycle_after_removal: bool,
  pub big_reorder: bool,
  pub readd_existing: u64,
  pub readd_order_sensitive: bool,
  pub removal_partial: bool,
  pub stale_ops: u64,
  pub removals: u64,
  pub max_live: usize,
  pub edges_added: u64,
  pub single_queries: u64,
  pub flips: u64,
  pub query_after_removal: bool,
}

/// Applies `case` to the real graph and the model. With `check_every` all assertions run after every operation; otherwise
/// only after the last one (used by exhaustive enumeration, where every prefix is itself enumerated).
pub fn run_case(case: &DagCase, check_every: bool, facts: &mut DagFacts) -> Vec<(Tag, String)> {
  let mut fails = vec![];
  let mut sut = Sut::new();
  let mut m = Model::default();
  for _ in 0..case.init {
    sut.add_node();
    m.nodes.push(MNode { live: true, ..Default::default() });
  }
  let mut removal_seen = false;
  let mut recent: Vec<(u8, usize, usize)> = vec![];
  let n_ops = case.ops.len();
  if n_ops == 0 { check_all(&sut, &m, 0, "init", &mut fails); }
  for (step, op) in case.ops.iter().enumerate() {
    let do_check = (check_every && (case.sweep_every == 0 || (step + 1) % case.sweep_every as usize == 0)) || step + 1 == n_ops;
    let total = m.nodes.len();
    let desc;
    match op {
      DagOp::AddNode => {
        desc = "add_node".to_string();
        sut.add_node();
        m.nodes.push(MNode { live: true, ..Default::default() });
      }
      DagOp::AddEdge { .. } | DagOp::ReAdd { .. } => {
        let (s, d, data) = match op {
          DagOp::AddEdge { s, d, data } => (pick(*s, total), pick(*d, total), *data),
          DagOp::ReAdd { k, data } => {
            let edges = m.edges();
            if edges.is_empty() { continue; }
            let (s, d) = edges[pick(*k, edges.len())];
            (s, d, *data)
          }
          _ => unreachable!(),
        };
        if total == 0 { continue; }
        desc = format!("add_edge({}->{},{})", s, d, data);
        let before = if do_check { Some(sut.observe()) } else { None };
        let expected: Result<bool, Error> = if !m.live(s) || !m.live(d) {
          facts.stale_ops += 1;
          Err(Error::NodeMissing)
        } else if s == d {
          Err(Error::CycleDetected)
        } else if m.has_edge(s, d) {
          facts.readd_existing += 1;
          if m.nodes[s].out.len() >= 2 && m.nodes[s].out.last().map(|(x, _)| *x) != Some(d) { facts.readd_order_sensitive = true; }
          Ok(false)
        } else if let Some(len) = m.dist(d, s) {
          facts.cycles_rejected += 1;
          if len + 1 >= 3 && removal_seen { facts.long_cycle_after_removal = true; }
          Err(Error::CycleDetected)
        } else {
          Ok(true)
        };
        let got = sut.dag.add_edge(&sut.ids[s], &sut.ids[d], data);
        if got != expected {
          fails.push((Tag::C10, format!("step {} {}: returned {:?}, reference says {:?}", step, desc, got, expected)));
        }
        if expected == Ok(true) {
          m.nodes[s].out.push((d, data));
          m.nodes[d].inc.push(s);
          facts.edges_added += 1;
        }
        if let Some(before) = before {
          let after = sut.observe();
          match expected {
            Err(_) => {
              if after != before {
                fails.push((Tag::C10, format!("step {} {}: rejected insertion changed the graph: before {:?} after {:?}", step, desc, before, after)));
              }
            }
            Ok(true) => {
              let moved = before.rank.iter().zip(after.rank.iter()).filter(|(a, b)| a != b).count() as u64;
              if moved > 0 { facts.reorders += 1; }
              facts.max_moved = facts.max_moved.max(moved);
              if moved >= 3 { facts.big_reorder = true; }
            }
            Ok(false) => {}
          }
        }
      }
      DagOp::RemEdge { .. } | DagOp::RemExisting { .. } => {
        let (s, d) = match op {
          DagOp::RemEdge { s, d } => (pick(*s, total), pick(*d, total)),
          DagOp::RemExisting { k } => {
            let edges = m.edges();
            if edges.is_empty() { continue; }
            edges[pick(*k, edges.len())]
          }
          _ => unreachable!(),
        };
        if total == 0 { continue; }
        desc = format!("remove_edge({}->{})", s, d);
        let expected = if m.live(s) && m.live(d) { m.remove_edge(s, d) } else { facts.stale_ops += 1; None };
        if expected.is_some() {
          removal_seen = true;
          facts.removals += 1;
          if !m.nodes[s].out.is_empty() { facts.removal_partial = true; }
        }
        let got = sut.dag.remove_edge(&sut.ids[s], &sut.ids[d]);
        if got != expected {
          fails.push((Tag::C11, format!("step {} {}: returned {:?}, reference says {:?}", step, desc, got, expected)));
        }
      }
      DagOp::RemOut { s } => {
        if total == 0 { continue; }
        let s = pick(*s, total);
        desc = format!("remove_outgoing_edges_of_node({})", s);
        let expected: Option<Vec<(usize, u8)>> = if !m.live(s) {
          facts.stale_ops += 1;
          None
        } else if m.nodes[s].out.is_empty() {
          None
        } else {
          let out = std::mem::take(&mut m.nodes[s].out);
          for (d, _) in &out {
            let ipos = m.nodes[*d].inc.iter().position(|x| *x == s).expect("model symmetric");
            m.nodes[*d].inc.remove(ipos);
          }
          removal_seen = true;
          facts.removals += 1;
          Some(out)
        };
        let got = sut.dag.remove_outgoing_edges_of_node(&sut.ids[s]).map(|v| v.into_iter().map(|(n, e)| (sut.ix(&n), e)).collect::<Vec<_>>());
        let norm = |v: &Option<Vec<(usize, u8)>>| v.clone().map(|mut x| { x.sort(); x });
        if norm(&got) != norm(&expected) {
          fails.push((Tag::C11, format!("step {} {}: returned {:?}, reference says {:?}", step, desc, got, expected)));
        }
      }
      DagOp::Flip { a, b, n } => {
        if total < 2 { continue; }
        let (x, mut y) = (pick(*a, total), pick(*b, total));
        if y == x { y = (x + 1) % total; }
        desc = format!("flip({}<->{} x{})", x, y, n);
        // Only between two live nodes that are not connected in either direction (otherwise the flip is not a flip).
        if !m.live(x) || !m.live(y) || m.dist(x, y).is_some() || m.dist(y, x).is_some() { continue; }
        for round in 0..*n {
          for (s, d) in [(x, y), (y, x)] {
            let got = sut.dag.add_edge(&sut.ids[s], &sut.ids[d], 9);
            if got != Ok(true) { fails.push((Tag::C10, format!("step {} {} round {}: add_edge({}->{}) returned {:?}, reference says Ok(true)", step, desc, round, s, d, got))); break; }
            facts.edges_added += 1;
            let rem = sut.dag.remove_edge(&sut.ids[s], &sut.ids[d]);
            if rem != Some(9) { fails.push((Tag::C11, format!("step {} {} round {}: remove_edge({}->{}) returned {:?}, reference says Some(9)", step, desc, round, s, d, rem))); break; }
          }
          if !fails.is_empty() { break; }
        }
        facts.flips += *n as u64;
      }
      DagOp::Q { .. } | DagOp::QAgain { .. } => {
        if total == 0 { continue; }
        let (kind, a, b) = match op {
          DagOp::Q { kind, a, b } => (*kind % 10, pick(*a, total), pick(*b, total)),
          DagOp::QAgain { k } => { if recent.is_empty() { continue; } recent[recent.len() - 1 - (*k as usize % recent.len())] }
          _ => unreachable!(),
        };
        recent.push((kind, a, b));
        if recent.len() > 8 { recent.remove(0); }
        facts.single_queries += 1;
        if removal_seen { facts.query_after_removal = true; }
        desc = format!("query kind {} ({}, {})", kind, a, b);
        single_query(&sut, &m, kind, a, b, step, &mut fails);
      }
      DagOp::RemNode { s } => {
        if total == 0 { continue; }
        let s = pick(*s, total);
        desc = format!("remove_node({})", s);
        let expected = m.live(s);
        if expected {
          let out = std::mem::take(&mut m.nodes[s].out);
          for (d, _) in &out {
            let ipos = m.nodes[*d].inc.iter().position(|x| *x == s).expect("model symmetric");
            m.nodes[*d].inc.remove(ipos);
          }
          let inc = std::mem::take(&mut m.nodes[s].inc);
          for p in &inc {
            let pos = m.nodes[*p].out.iter().position(|(x, _)| *x == s).expect("model symmetric");
            m.nodes[*p].out.remove(pos);
            if !m.nodes[*p].out.is_empty() { facts.removal_partial = true; }
          }
          m.nodes[s].live = false;
          removal_seen = true;
          facts.removals += 1;
        } else {
          facts.stale_ops += 1;
        }
        let got = sut.dag.remove_node(sut.ids[s]);
        if got != expected {
          fails.push((Tag::C11, format!("step {} {}: returned {:?}, reference says {:?}", step, desc, got, expected)));
        }
      }
    }
    facts.max_live = facts.max_live.max(m.live_count());
    if do_check {
      check_all(&sut, &m, step, &desc, &mut fails);
    }
    if !fails.is_empty() { break; }
  }
  fails
}

/// One query against the reference (C11), without touching anything else.
fn single_query(sut: &Sut, m: &Model, kind: u8, i: usize, j: usize, step: usize, fails: &mut Vec<(Tag, String)>) {
  let (a, b) = (&sut.ids[i], &sut.ids[j]);
  let at = |msg: String| format!("step {} single query: {}", step, msg);
  match kind {
    0 => {
      let t = i != j && m.live(i) && m.live(j) && m.reach_set(i).contains(&j);
      if sut.dag.contains_transitive_edge(a, b) != t { fails.push((Tag::C11, at(format!("contains_transitive_edge({},{}) = {}, reference {}", i, j, !t, t)))); }
    }
    1 => {
      let e = m.has_edge(i, j);
      if sut.dag.contains_edge(a, b) != e { fails.push((Tag::C11, at(format!("contains_edge({},{}) = {}, reference {}", i, j, !e, e)))); }
    }
    2 => {
      let ed = sut.dag.get_edge_data(a, b).cloned();
      if ed != m.edge_data(i, j) { fails.push((Tag::C11, at(format!("get_edge_data({},{}) = {:?}, reference {:?}", i, j, ed, m.edge_data(i, j))))); }
    }
    3 => {
      if m.live(i) && m.live(j) {
        let obs = sut.observe();
        if let (Some(ri), Some(rj)) = (obs.rank[i], obs.rank[j]) {
          let cmp: Ordering = sut.dag.topo_cmp(a, b);
          if cmp != ri.cmp(&rj) { fails.push((Tag::C11, at(format!("topo_cmp({},{}) = {:?} but ranks {} {}", i, j, cmp, ri, rj)))); }
        }
      }
    }
    4 | 5 => {
      let want = if m.live(i) { Some(m.reach_set(i)) } else { None };
      let got: Option<Vec<usize>> = if kind == 4 { sut.dag.descendants(a).ok().map(|it| it.map(|nd| sut.ix(&nd)).collect()) } else { sut.dag.descendants_unsorted(a).ok().map(|it| it.map(|(_, nd)| sut.ix(&nd)).collect()) };
      let got_set: Option<BTreeSet<usize>> = got.as_ref().map(|v| v.iter().cloned().collect());
      if got_set != want || got.as_ref().map(|v| v.len()) != want.as_ref().map(|s| s.len()) { fails.push((Tag::C11, at(format!("descendants{}({}) = {:?}, reference set {:?}", if kind == 5 { "_unsorted" } else { "" }, i, got, want)))); }
    }
    8 | 9 => {
      // Two iterators alive at once: the outer one must not be disturbed by the inner traversal.
      let want = if m.live(i) { Some(m.reach_set(i)) } else { None };
      let mut got: Option<Vec<usize>> = None;
      let mut inner_runs = 0;
      if kind == 8 {
        if let Ok(mut it) = sut.dag.descendants(a) {
          let mut v = vec![];
          while let Some(nd) = it.next() {
            v.push(sut.ix(&nd));
            if v.len() % 2 == 1 { if let Ok(inner) = sut.dag.descendants_unsorted(b) { inner_runs += inner.count().min(1); } if let Ok(inner) = sut.dag.descendants(b) { let _ = inner.count(); } }
          }
          got = Some(v);
        }
      } else if let Ok(mut it) = sut.dag.descendants_unsorted(a) {
        let mut v = vec![];
        while let Some((_, nd)) = it.next() {
          v.push(sut.ix(&nd));
          if v.len() % 2 == 1 { if let Ok(inner) = sut.dag.descendants(b) { inner_runs += inner.count().min(1); } if let Ok(inner) = sut.dag.descendants_unsorted(b) { let _ = inner.count(); } }
        }
        got = Some(v);
      }
      let _ = inner_runs;
      let got_set: Option<BTreeSet<usize>> = got.as_ref().map(|v| v.iter().cloned().collect());
      if got_set != want || got.as_ref().map(|v| v.len()) != want.as_ref().map(|s| s.len()) {
        fails.push((Tag::C11, at(format!("descendants{}({}) consumed lazily while another traversal from {} ran in between = {:?}, reference set {:?}", if kind == 9 { "_unsorted" } else { "" }, i, j, got, want))));
      }
    }
    6 => {
      let got: Vec<(usize, u8)> = sut.dag.get_outgoing_edges(a).map(|(d, e)| (sut.ix(d), *e)).collect();
      if got != m.nodes[i].out { fails.push((Tag::C11, at(format!("get_outgoing_edges({}) = {:?}, reference {:?}", i, got, m.nodes[i].out)))); }
    }
    _ => {
      let got: Vec<(usize, u8)> = sut.dag.get_incoming_edges(a).map(|(s, e)| (sut.ix(s), *e)).collect();
      let want: Vec<(usize, u8)> = m.nodes[i].inc.iter().map(|s| (*s, m.edge_data(*s, i).unwrap())).collect();
      if got != want { fails.push((Tag::C11, at(format!("get_incoming_edges({}) = {:?}, reference {:?}", i, got, want)))); }
    }
  }
}

fn check_all(sut: &Sut, m: &Model, step: usize, desc: &str, fails: &mut Vec<(Tag, String)>) {
  let n = m.nodes.len();
  let obs = sut.observe();
  let at = |msg: String| format!("step {} after {}: {}", step, desc, msg);

  // --- C10: ranks are a bijection onto 1..=len, len is the number of live nodes, every edge ascends.
  let live = m.live_count();
  if obs.len != live || sut.dag.is_empty() != (live == 0) {
    fails.push((Tag::C10, at(format!("len {} / is_empty {} but {} live nodes", obs.len, sut.dag.is_empty(), live))));
  }
  let listed = sut.dag.iter_unsorted().count();
  if listed != live { fails.push((Tag::C10, at(format!("iter_unsorted yields {} nodes, {} live", listed, live)))); }
  let mut ranks: Vec<u32> = vec![];
  for i in 0..n {
    match (m.live(i), obs.rank[i]) {
      (true, Some(r)) => ranks.push(r),
      (false, None) => {}
      (l, r) => fails.push((Tag::C10, at(format!("node {} live={} but rank {:?}", i, l, r)))),
    }
  }
  ranks.sort();
  if ranks != (1..=live as u32).collect::<Vec<_>>() {
    fails.push((Tag::C10, at(format!("ranks {:?} are not a bijection onto 1..={}", ranks, live))));
  }
  for (s, d) in m.edges() {
    if let (Some(rs), Some(rd)) = (obs.rank[s], obs.rank[d]) {
      if rs >= rd { fails.push((Tag::C10, at(format!("edge {}->{} has rank {} >= {}", s, d, rs, rd)))); }
    }
  }
  // The same for the edges the graph itself reports (acyclicity of the real structure, independent of the model).
  for s in 0..n {
    for (d, _) in &obs.out[s] {
      if *d < n {
        if let (Some(rs), Some(rd)) = (obs.rank[s], obs.rank[*d]) {
          if rs >= rd { fails.push((Tag::C10, at(format!("reported edge {}->{} has rank {} >= {}", s, d, rs, rd)))); }
        }
      }
    }
  }

  // --- C11: adjacency in order of first insertion with the data of that insertion, mutually symmetric.
  for i in 0..n {
    let exp_out: Vec<(usize, u8)> = m.nodes[i].out.clone();
    if obs.out[i] != exp_out {
      fails.push((Tag::C11, at(format!("get_outgoing_edges({}) = {:?}, reference {:?}", i, obs.out[i], exp_out))));
    }
    let exp_inc: Vec<(usize, u8)> = m.nodes[i].inc.iter().map(|s| (*s, m.edge_data(*s, i).unwrap())).collect();
    if obs.inc[i] != exp_inc {
      fails.push((Tag::C11, at(format!("get_incoming_edges({}) = {:?}, reference {:?}", i, obs.inc[i], exp_inc))));
    }
    let id = &sut.ids[i];
    let on: Vec<usize> = sut.dag.get_outgoing_edge_nodes(id).map(|d| sut.ix(d)).collect();
    let od: Vec<u8> = sut.dag.get_outgoing_edge_data(id).cloned().collect();
    let ond: Vec<u32> = sut.dag.get_outgoing_edge_node_data(id).cloned().collect();
    if on != exp_out.iter().map(|x| x.0).collect::<Vec<_>>() || od != exp_out.iter().map(|x| x.1).collect::<Vec<_>>() || ond != exp_out.iter().map(|x| x.0 as u32).collect::<Vec<_>>() {
      fails.push((Tag::C11, at(format!("outgoing node/data/node-data iterators of {} = {:?}/{:?}/{:?}, reference {:?}", i, on, od, ond, exp_out))));
    }
    let inn: Vec<usize> = sut.dag.get_incoming_edge_nodes(id).map(|d| sut.ix(d)).collect();
    let ind: Vec<u8> = sut.dag.get_incoming_edge_data(id).cloned().collect();
    let innd: Vec<u32> = sut.dag.get_incoming_edge_node_data(id).cloned().collect();
    if inn != exp_inc.iter().map(|x| x.0).collect::<Vec<_>>() || ind != exp_inc.iter().map(|x| x.1).collect::<Vec<_>>() || innd != exp_inc.iter().map(|x| x.0 as u32).collect::<Vec<_>>() {
      fails.push((Tag::C11, at(format!("incoming node/data/node-data iterators of {} = {:?}/{:?}/{:?}, reference {:?}", i, inn, ind, innd, exp_inc))));
    }
    if sut.dag.contains_node(id) != m.live(i) { fails.push((Tag::C11, at(format!("contains_node({}) wrong", i)))); }
    let nd = sut.dag.get_node_data(id).cloned();
    if nd != if m.live(i) { Some(i as u32) } else { None } { fails.push((Tag::C11, at(format!("get_node_data({}) = {:?}", i, nd)))); }
  }
  // Symmetry of what the graph itself reports.
  for s in 0..n {
    for (d, e) in &obs.out[s] {
      if *d >= n || !obs.inc[*d].contains(&(s, *e)) { fails.push((Tag::C11, at(format!("outgoing {}->{} has no matching incoming entry", s, d)))); }
    }
    for (p, e) in &obs.inc[s] {
      if *p >= n || !obs.out[*p].contains(&(s, *e)) { fails.push((Tag::C11, at(format!("incoming {}->{} has no matching outgoing entry", p, s)))); }
    }
  }
  // Pair queries.
  let reach: Vec<BTreeSet<usize>> = (0..n).map(|i| m.reach_set(i)).collect();
  for i in 0..n {
    for j in 0..n {
      let (a, b) = (&sut.ids[i], &sut.ids[j]);
      let e = m.has_edge(i, j);
      if sut.dag.contains_edge(a, b) != e { fails.push((Tag::C11, at(format!("contains_edge({},{}) = {}, reference {}", i, j, !e, e)))); }
      let t = i != j && m.live(i) && m.live(j) && reach[i].contains(&j);
      if sut.dag.contains_transitive_edge(a, b) != t { fails.push((Tag::C11, at(format!("contains_transitive_edge({},{}) = {}, reference {}", i, j, !t, t)))); }
      let ed = sut.dag.get_edge_data(a, b).cloned();
      if ed != m.edge_data(i, j) { fails.push((Tag::C11, at(format!("get_edge_data({},{}) = {:?}, reference {:?}", i, j, ed, m.edge_data(i, j))))); }
      if m.live(i) && m.live(j) {
        let cmp: Ordering = sut.dag.topo_cmp(a, b);
        if let (Some(ri), Some(rj)) = (obs.rank[i], obs.rank[j]) {
          if cmp != ri.cmp(&rj) { fails.push((Tag::C11, at(format!("topo_cmp({},{}) = {:?} but ranks {} {}", i, j, cmp, ri, rj)))); }
        }
      }
    }
  }
  // Descendants.
  for i in 0..n {
    let id = &sut.ids[i];
    match sut.dag.descendants_unsorted(id) {
      Err(e) => { if m.live(i) || e != Error::NodeMissing { fails.push((Tag::C11, at(format!("descendants_unsorted({}) = Err({:?})", i, e)))); } }
      Ok(it) => {
        if !m.live(i) { fails.push((Tag::C11, at(format!("descendants_unsorted({}) on a removed node is Ok", i)))); }
        let got: Vec<(u32, usize)> = it.map(|(r, nd)| (r, sut.ix(&nd))).collect();
        let set: BTreeSet<usize> = got.iter().map(|x| x.1).collect();
        if set.len() != got.len() || set != reach[i] {
          fails.push((Tag::C11, at(format!("descendants_unsorted({}) = {:?}, reference set {:?}", i, got, reach[i]))));
        }
        for (r, nd) in &got {
          if *nd < n && obs.rank[*nd] != Some(*r) { fails.push((Tag::C11, at(format!("descendants_unsorted({}) reports rank {} for node {} whose rank is {:?}", i, r, nd, obs.rank[*nd])))); }
        }
      }
    }
    match sut.dag.descendants(id) {
      Err(e) => { if m.live(i) || e != Error::NodeMissing { fails.push((Tag::C11, at(format!("descendants({}) = Err({:?})", i, e)))); } }
      Ok(it) => {
        if !m.live(i) { fails.push((Tag::C11, at(format!("descendants({}) on a removed node is Ok", i)))); }
        let got: Vec<usize> = it.map(|nd| sut.ix(&nd)).collect();
        let set: BTreeSet<usize> = got.iter().cloned().collect();
        if set.len() != got.len() || set != reach[i] {
          fails.push((Tag::C11, at(format!("descendants({}) = {:?}, reference set {:?}", i, got, reach[i]))));
        }
        let rs: Vec<Option<u32>> = got.iter().map(|x| if *x < n { obs.rank[*x] } else { None }).collect();
        if !rs.windows(2).all(|w| w[0] < w[1]) { fails.push((Tag::C11, at(format!("descendants({}) = {:?} not in ascending rank {:?}", i, got, rs)))); }
      }
    }
  }
}

pub fn record(case: &DagCase, facts: &DagFacts, stats: &mut Stats, which: Tag) {
  stats.class_n("accepted_edges", facts.edges_added);
  stats.class_n("reordering_insertions", facts.reorders);
  stats.class_n("rejected_cycles", facts.cycles_rejected);
  stats.class_n("readd_existing_edge", facts.readd_existing);
  stats.class_n("ops_on_removed_nodes", facts.stale_ops);
  stats.class_n("removals", facts.removals);
  if facts.big_reorder { stats.class("case_with_reorder_moving>=3"); }
  if facts.long_cycle_after_removal { stats.class("case_with_cycle>=3_rejected_after_removal"); }
  if facts.readd_order_sensitive { stats.class("case_with_order_sensitive_readd"); }
  if facts.removal_partial { stats.class("case_with_partial_removal"); }
  if facts.reorders > 0 { stats.class("case_with_reorder"); }
  if facts.readd_existing > 0 { stats.class("case_with_readd"); }
  if facts.cycles_rejected > 0 { stats.class("case_with_rejected_cycle"); }
  stats.class_n("single_queries", facts.single_queries);
  stats.class_n("edge_flip_rounds", facts.flips);
  if case.sweep_every != 0 { stats.class("case_with_sparse_sweeps"); if facts.query_after_removal { stats.class("sparse_case_with_single_query_after_a_removal"); } }
  let nontrivial = match which {
    Tag::C10 => facts.big_reorder || facts.long_cycle_after_removal,
    Tag::C11 => facts.readd_order_sensitive || facts.removal_partial,
  };
  if nontrivial { stats.nontrivial(crate::driver::fingerprint(case)); }
}

/// Exhaustive enumeration of all operation sequences of exactly `len` ops over `init` pre-created nodes (AddNode allowed
/// once more), checking after the last op only (every prefix is enumerated as a shorter sequence by the caller).
pub fn enumerate(init: u8, len: usize, which: Tag, threads: usize) -> (u64, Option<(DagCase, String)>) { enumerate_with(init, len, which, threads, false) }

/// `with_queries`: the alphabet additionally contains a single contains_transitive_edge query for every ordered pair, and
/// nothing else is queried before the last operation - so every interleaving of mutators and reachability queries of that
/// length is covered (state carried from one query to the next).
pub fn enumerate_with(init: u8, len: usize, which: Tag, threads: usize, with_queries: bool) -> (u64, Option<(DagCase, String)>) {
  // Alphabet over node indices 0..init (+1 for a node possibly added by AddNode).
  let n = init as usize + 1;
  let mut alphabet: Vec<DagOp> = vec![DagOp::AddNode];
  let sel = |i: usize| -> u16 { (((i as u32) << 16) / (n as u32) + 1).min(65535) as u16 };
  for s in 0..n { for d in 0..n { alphabet.push(DagOp::AddEdge { s: sel(s), d: sel(d), data: (s * 4 + d) as u8 }); } }
  for s in 0..n { for d in 0..n { if s != d { alphabet.push(DagOp::RemEdge { s: sel(s), d: sel(d) }); } } }
  for s in 0..n { alphabet.push(DagOp::RemOut { s: sel(s) }); }
  for s in 0..n { alphabet.push(DagOp::RemNode { s: sel(s) }); }
  if with_queries { for s in 0..n { for d in 0..n { if s != d { alphabet.push(DagOp::Q { kind: 0, a: sel(s), b: sel(d) }); } } } }
  // NOTE: selectors are resolved against the number of nodes created so far; with fewer nodes some selectors alias,
  // which only duplicates sequences.
  let a = alphabet.len();
  let total: u64 = (a as u64).pow(len as u32);
  let alphabet = &alphabet;
  let results: Vec<(u64, Option<(DagCase, String)>)> = std::thread::scope(|scope| {
    let hs: Vec<_> = (0..threads).map(|t| {
      scope.spawn(move || {
        let mut count = 0u64;
        let mut idx = t as u64;
        let mut facts = DagFacts::default();
        while idx < total {
          let mut ops = Vec::with_capacity(len);
          let mut x = idx;
          for _ in 0..len { ops.push(alphabet[(x % a as u64) as usize].clone()); x /= a as u64; }
          let case = DagCase { init, ops, sweep_every: 0 };
          let fails = match std::panic::catch_unwind(std::panic::AssertUnwindSafe(|| run_case(&case, false, &mut facts))) {
            Ok(f) => f,
            Err(p) => vec![(which, format!("the graph panicked: {}", crate::driver::panic_message(p.as_ref())))],
          };
          count += 1;
          if let Some((_, msg)) = fails.into_iter().find(|(tag, _)| *tag == which) {
            return (count, Some((case, msg)));
          }
          idx += threads as u64;
        }
        (count, None)
      })
    }).collect();
    hs.into_iter().map(|h| h.join().unwrap()).collect()
  });
  let mut count = 0;
  let mut first = None;
  for (c, f) in results { count += c; if first.is_none() { first = f; } }
  (count, first)
}
