//! Constructive generators: a genome of small integers is turned into a well-formed (static-role) program and a
//! history by a deterministic builder. proptest generates and shrinks genomes; shorter streams / smaller numbers give
//! simpler programs (an exhausted stream yields 0 = the simplest choice everywhere). The same builder decodes fuzzer
//! bytes.

use std::collections::{BTreeMap, BTreeSet};

use proptest::prelude::*;
use serde::{Deserialize, Serialize};

use crate::lang::*;

#[derive(Clone, Debug)]
pub struct GenCfg {
  pub max_tasks: usize,
  pub max_src: u8,
  pub max_gen: u8,
  pub max_stmts: usize,
  pub max_steps: usize,
  pub rchks: Vec<RChk>,
  pub ochks: Vec<OChk>,
  pub wchks: Vec<RChk>,
  pub faulty: bool,
  pub multi_access: bool,
  pub bottom_up: bool,
  pub dyn_targets: bool,
  pub written_to: bool,
  /// Probability weight (out of 8) that a history step after a change batch is a bottom-up session.
  pub bottom_up_weight: u16,
  /// Wide programs: more statements per task, more roots.
  pub wide: bool,
  /// Share (out of 10) of cases whose programs use only exact checkers.
  pub exact_share: u32,
  /// Share (out of 10) of cases in which repeated accesses may use a different checker (C08-F1/F2 class).
  pub multi_checker_share: u32,
  /// Set per case by the builder.
  pub multi_checker: bool,
  /// Share (out of 10) of cases whose tasks may panic for particular values (such cases get no bottom-up builds).
  pub task_panic_share: u32,
  pub panicky: bool,
  /// History contains SetFaults steps (C18).
  pub fault_steps: bool,
  /// History contains ArmPanic steps (C19).
  pub panic_steps: bool,
  /// Bottom-up reports may additionally name resources that did not change (must schedule nothing).
  pub over_report: bool,
  /// Bottom-up sessions may start with top-down requires and may contain a second bottom-up build.
  pub mixed_sessions: bool,
  /// Bottom-up reports are arbitrary (possibly incomplete) subsets: only what is built afterwards in *other* sessions is
  /// judged (C01: 'whatever was built before on the same Pie instance').
  pub arbitrary_reports: bool,
  /// Long sessions: external changes made while a session is open, each batch reported completely to a bottom-up build of
  /// that same session (no top-down require between a change and the bottom-up build that reports it).
  pub mid_session_changes: bool,
  /// Programs whose tasks may fail still get bottom-up builds (only C20's no-spurious-abort oracle judges those).
  pub bu_with_task_panics: bool,
}

impl GenCfg {
  pub fn quick() -> Self {
    Self {
      max_tasks: 6, max_src: 3, max_gen: 3, max_stmts: 5, max_steps: 8,
      rchks: RCHKS.to_vec(), ochks: OCHKS.to_vec(), wchks: vec![RChk::Exact],
      faulty: false, multi_access: true, bottom_up: false, dyn_targets: true, written_to: true,
      bottom_up_weight: 3, wide: false, exact_share: 3, fault_steps: false, panic_steps: false, multi_checker_share: 0, multi_checker: false, task_panic_share: 0, panicky: false,
      over_report: false, mixed_sessions: false, bu_with_task_panics: false, arbitrary_reports: false, mid_session_changes: false,
    }
  }
  pub fn thorough() -> Self {
    Self { max_tasks: 12, max_src: 4, max_gen: 5, max_stmts: 7, max_steps: 16, ..Self::quick() }
  }
  pub fn for_tier(t: crate::driver::Tier) -> Self { match t { crate::driver::Tier::Quick => Self::quick(), crate::driver::Tier::Thorough => Self::thorough() } }
}

#[derive(Serialize, Deserialize, Clone, Debug, PartialEq, Eq, Hash, Default)]
pub struct Genome {
  pub layout: Vec<u16>,
  pub tasks: Vec<Vec<u16>>,
  pub steps: Vec<Vec<u16>>,
}

pub fn genome_strategy(cfg: &GenCfg) -> impl Strategy<Value=Genome> {
  let tlen = if cfg.wide { 96 } else { 64 };
  (
    proptest::collection::vec(any::<u16>(), 0..=24),
    proptest::collection::vec(proptest::collection::vec(any::<u16>(), 0..=tlen), 1..=cfg.max_tasks),
    proptest::collection::vec(proptest::collection::vec(any::<u16>(), 0..=28), 1..=cfg.max_steps),
  ).prop_map(|(layout, tasks, steps)| Genome { layout, tasks, steps })
}

/// Genome from raw fuzzer bytes: first three bytes give the split, the rest is cut into u16 streams.
pub fn genome_from_bytes(data: &[u8], cfg: &GenCfg) -> Genome {
  let mut it = data.iter().copied();
  let mut next8 = || it.next().unwrap_or(0);
  let n_tasks = 1 + (next8() as usize) % cfg.max_tasks;
  let n_steps = 1 + (next8() as usize) % cfg.max_steps;
  let mut g = Genome::default();
  let next16 = |it: &mut dyn Iterator<Item=u8>| -> Option<u16> {
    let a = it.next()?;
    let b = it.next().unwrap_or(0);
    Some(u16::from_le_bytes([a, b]))
  };
  for _ in 0..12 { g.layout.push(next16(&mut it).unwrap_or(0)); }
  for _ in 0..n_steps {
    let mut s = vec![];
    for _ in 0..10 { s.push(next16(&mut it).unwrap_or(0)); }
    g.steps.push(s);
  }
  // Remaining bytes are dealt round-robin... no: contiguous chunks per task keep mutations local.
  let rest: Vec<u8> = it.collect();
  let per = (rest.len() / 2 / n_tasks).max(1);
  let mut words = rest.chunks(2).map(|c| u16::from_le_bytes([c[0], *c.get(1).unwrap_or(&0)]));
  for _ in 0..n_tasks {
    let mut s = vec![];
    for _ in 0..per { if let Some(w) = words.next() { s.push(w); } }
    g.tasks.push(s);
  }
  g
}

pub struct Rd<'a> {
  s: &'a [u16],
  i: usize,
}

impl<'a> Rd<'a> {
  pub fn new(s: &'a [u16]) -> Self { Self { s, i: 0 } }
  pub fn next(&mut self) -> u16 { let v = self.s.get(self.i).copied().unwrap_or(0); self.i += 1; v }
  pub fn pick(&mut self, n: usize) -> usize { if n == 0 { 0 } else { crate::driver::pick(self.next(), n) } }
  /// True with probability num/den; an exhausted stream (0) gives false.
  pub fn chance(&mut self, num: u32, den: u32) -> bool { (self.next() as u32) * den >= (den - num) * 65536 }
  pub fn exhausted(&self) -> bool { self.i >= self.s.len() }
}

#[derive(Clone, Default)]
struct PathCtx {
  /// Variables assigned on this path (selectors and conditions prefer them).
  assigned: Vec<u8>,
  required: BTreeSet<TaskId>,
  written: BTreeSet<ResId>,
  accessed: Vec<Stmt>,
}

pub struct Builder<'c> {
  cfg: &'c GenCfg,
  n_tasks: usize,
  n_src: u8,
  n_res: u8,
  writers: Vec<TaskId>,
  /// Tasks that task t requires unconditionally (transitively closed), known for t > current.
  uncond: Vec<BTreeSet<TaskId>>,
  /// Swarm profile of this case: which statement kinds are boosted (0 = the default mix).
  profile: u8,
}

#[derive(Clone, Copy)]
struct Tables {
  /// All reads / requires of this task use one checker (needed for Dyn targets: one checker per target per execution).
  r_uniform: bool,
  o_uniform: bool,
  rseed: u16,
  oseed: u16,
  fseed: u16,
  wseed: u16,
}

impl<'c> Builder<'c> {
  fn rchk(&self, tb: &Tables, r: ResId) -> RChk {
    if tb.rseed == 0 { return self.cfg.rchks[0]; }
    if tb.r_uniform { return self.cfg.rchks[tb.rseed as usize % self.cfg.rchks.len()]; }
    self.cfg.rchks[(tb.rseed as usize + r as usize * 5) % self.cfg.rchks.len()]
  }
  fn ochk(&self, tb: &Tables, t: TaskId) -> OChk {
    if tb.oseed == 0 { return self.cfg.ochks[0]; }
    if tb.o_uniform { return self.cfg.ochks[tb.oseed as usize % self.cfg.ochks.len()]; }
    self.cfg.ochks[(tb.oseed as usize + t as usize * 3) % self.cfg.ochks.len()]
  }
  fn wchk(&self, tb: &Tables, r: ResId) -> RChk {
    if tb.wseed == 0 { return self.cfg.wchks[0]; }
    self.cfg.wchks[(tb.wseed as usize + r as usize) % self.cfg.wchks.len()]
  }
  fn faulty(&self, tb: &Tables, r: ResId) -> bool {
    self.cfg.faulty && tb.fseed != 0 && (tb.r_uniform || (tb.fseed as usize + r as usize * 2) % 3 != 0)
  }

  /// A variable to read: prefers variables assigned on this path.
  fn rvar(&self, rd: &mut Rd, px: &PathCtx) -> u8 {
    if px.assigned.is_empty() { rd.pick(GVARS) as u8 } else { px.assigned[px.assigned.len() - 1 - rd.pick(px.assigned.len())] }
  }
  /// A variable to assign: prefers fresh variables so that earlier observations stay usable.
  fn wvar(&self, rd: &mut Rd, px: &mut PathCtx) -> u8 {
    let fresh: Vec<u8> = (0..GVARS as u8).filter(|v| !px.assigned.contains(v)).collect();
    let v = if !fresh.is_empty() && !rd.chance(1, 4) { fresh[0] } else { rd.pick(GVARS) as u8 };
    if !px.assigned.contains(&v) { px.assigned.push(v); }
    v
  }

  fn expr_px(&self, rd: &mut Rd, px: &PathCtx, depth: usize) -> Expr {
    let k = if depth >= 2 { rd.pick(2) } else { rd.pick(7) };
    match k {
      0 => Expr::Var(self.rvar(rd, px)),
      1 => Expr::Const(rd.pick(8) as u8),
      2 => Expr::Add(Box::new(self.expr_px(rd, px, depth + 1)), Box::new(self.expr_px(rd, px, depth + 1))),
      3 => Expr::Eq(Box::new(Expr::Var(self.rvar(rd, px))), Box::new(Expr::Const(rd.pick(6) as u8))),
      4 => Expr::Lt(Box::new(Expr::Var(self.rvar(rd, px))), Box::new(Expr::Const(1 + rd.pick(5) as u8))),
      5 => Expr::Add(Box::new(Expr::Var(self.rvar(rd, px))), Box::new(Expr::Var(self.rvar(rd, px)))),
      _ => Expr::Mul(Box::new(self.expr_px(rd, px, depth + 1)), Box::new(self.expr_px(rd, px, depth + 1))),
    }
  }

  fn cond_px(&self, rd: &mut Rd, px: &PathCtx) -> Expr {
    match rd.pick(4) {
      0 => Expr::Lt(Box::new(Expr::Var(self.rvar(rd, px))), Box::new(Expr::Const(1 + rd.pick(4) as u8))),
      1 => Expr::Eq(Box::new(Expr::Var(self.rvar(rd, px))), Box::new(Expr::Const(rd.pick(5) as u8))),
      2 => Expr::Lt(Box::new(Expr::Const(rd.pick(4) as u8)), Box::new(Expr::Var(self.rvar(rd, px)))),
      _ => self.expr_px(rd, px, 1),
    }
  }

  #[allow(dead_code)]
  fn expr(&self, rd: &mut Rd, depth: usize) -> Expr {
    let k = if depth >= 2 { rd.pick(2) } else { rd.pick(6) };
    match k {
      0 => Expr::Const(rd.pick(8) as u8),
      1 => Expr::Var(rd.pick(GVARS) as u8),
      2 => Expr::Add(Box::new(self.expr(rd, depth + 1)), Box::new(self.expr(rd, depth + 1))),
      3 => Expr::Eq(Box::new(Expr::Var(rd.pick(GVARS) as u8)), Box::new(Expr::Const(rd.pick(6) as u8))),
      4 => Expr::Lt(Box::new(Expr::Var(rd.pick(GVARS) as u8)), Box::new(Expr::Const(1 + rd.pick(5) as u8))),
      _ => Expr::Mul(Box::new(self.expr(rd, depth + 1)), Box::new(self.expr(rd, depth + 1))),
    }
  }

  #[allow(dead_code)]
  fn cond(&self, rd: &mut Rd) -> Expr {
    match rd.pick(3) {
      0 => Expr::Lt(Box::new(Expr::Var(rd.pick(GVARS) as u8)), Box::new(Expr::Const(1 + rd.pick(4) as u8))),
      1 => Expr::Eq(Box::new(Expr::Var(rd.pick(GVARS) as u8)), Box::new(Expr::Const(rd.pick(5) as u8))),
      _ => self.expr(rd, 1),
    }
  }

  /// Ensures a task that (unconditionally, transitively) reaches `w` is definitely required on this path; emits the
  /// require if needed.
  fn ensure_required(&self, me: TaskId, w: TaskId, tb: &Tables, rd: &mut Rd, px: &mut PathCtx, out: &mut Vec<Stmt>) {
    if px.required.contains(&w) { return; }
    // Candidates: w itself, or a task between me and w that unconditionally reaches w (chains exercise transitivity).
    let mut cands: Vec<TaskId> = vec![w];
    for x in (me as usize + 1)..self.n_tasks {
      if x as TaskId != w && self.uncond[x].contains(&w) { cands.push(x as TaskId); }
    }
    let x = cands[rd.pick(cands.len())];
    let st = Stmt::Require { task: Target::Fixed(x), chk: self.ochk(tb, x), var: self.wvar(rd, px) };
    px.accessed.push(st.clone());
    out.push(st);
    px.required.insert(x);
    for y in self.uncond[x as usize].iter() { px.required.insert(*y); }
  }

  fn block(&self, me: TaskId, tb: &Tables, rd: &mut Rd, px: &mut PathCtx, depth: usize, max: usize) -> Vec<Stmt> {
    let mut out = vec![];
    let n = rd.pick(max + 1);
    for _ in 0..n {
      // Available statement kinds, simplest first.
      let mut kinds: Vec<u8> = vec![];
      let own: Vec<ResId> = (self.n_src..self.n_res).filter(|r| self.writers[(*r - self.n_src) as usize] == me && !px.written.contains(r)).collect();
      let readable_gen: Vec<ResId> = (self.n_src..self.n_res).filter(|r| self.writers[(*r - self.n_src) as usize] > me).collect();
      if self.n_src > 0 { kinds.extend([0, 0, 0]); }
      if (me as usize) + 1 < self.n_tasks { kinds.extend([1, 1, 1]); }
      if !own.is_empty() { kinds.extend([2, 2, 2, 2]); }
      if !readable_gen.is_empty() { kinds.extend([3, 3, 3]); }
      if depth < 2 { kinds.extend([4, 4]); }
      if self.cfg.dyn_targets && (me as usize) + 2 < self.n_tasks { kinds.extend([5, 5]); }
      if self.cfg.dyn_targets && self.n_src >= 2 { kinds.push(6); }
      if depth < 2 && self.n_src > 0 && (me as usize) + 2 < self.n_tasks { kinds.extend([8, 8]); }
      if self.cfg.multi_access && !px.accessed.is_empty() { kinds.push(7); }
      if self.cfg.panicky && !px.assigned.is_empty() { kinds.push(9); }
      // Swarm testing: each case boosts one family of statement kinds, so that shapes which need many statements of one
      // kind (long chains, many switches, many writers) are not left to chance.
      let boost: &[u8] = match self.profile { 1 => &[8, 8], 2 => &[1, 3], 3 => &[2, 3], 4 => &[5, 6], 5 => &[7, 7], 6 => &[4, 8], _ => &[] };
      if !boost.is_empty() {
        let extra: Vec<u8> = kinds.iter().cloned().filter(|k| boost.contains(k)).collect();
        for _ in 0..3 { kinds.extend(extra.iter().cloned()); }
      }
      if kinds.is_empty() { break; }
      match kinds[rd.pick(kinds.len())] {
        0 => {
          let r = rd.pick(self.n_src as usize) as ResId;
          let st = Stmt::Read { res: Target::Fixed(r), chk: self.rchk(tb, r), faulty: self.faulty(tb, r), var: self.wvar(rd, px) };
          px.accessed.push(st.clone());
          out.push(st);
        }
        1 => {
          let span = self.n_tasks - me as usize - 1;
          let u = me + 1 + rd.pick(span) as TaskId;
          let st = Stmt::Require { task: Target::Fixed(u), chk: self.ochk(tb, u), var: self.wvar(rd, px) };
          px.accessed.push(st.clone());
          out.push(st);
          px.required.insert(u);
          for y in self.uncond[u as usize].iter() { px.required.insert(*y); }
        }
        2 => {
          let r = own[rd.pick(own.len())];
          let via = if self.cfg.written_to && rd.chance(1, 4) { Via::WrittenTo } else { Via::Ctx };
          let val = self.expr_px(rd, px, 0);
          out.push(Stmt::Write { res: Target::Fixed(r), chk: self.wchk(tb, r), faulty: self.faulty(tb, r) && self.cfg.wchks.len() > 1, val, via });
          px.written.insert(r);
        }
        3 => {
          let r = readable_gen[rd.pick(readable_gen.len())];
          let w = self.writers[(r - self.n_src) as usize];
          self.ensure_required(me, w, tb, rd, px, &mut out);
          let st = Stmt::Read { res: Target::Fixed(r), chk: self.rchk(tb, r), faulty: self.faulty(tb, r), var: self.wvar(rd, px) };
          px.accessed.push(st.clone());
          out.push(st);
        }
        4 => {
          let cond = self.cond_px(rd, px);
          let mut p1 = px.clone();
          let mut p2 = px.clone();
          let then = self.block(me, tb, rd, &mut p1, depth + 1, max.min(3));
          let els = if rd.chance(1, 2) { self.block(me, tb, rd, &mut p2, depth + 1, max.min(3)) } else { vec![] };
          px.required = p1.required.intersection(&p2.required).cloned().collect();
          px.written = p1.written.union(&p2.written).cloned().collect();
          for v in p1.assigned.iter().chain(p2.assigned.iter()) { if !px.assigned.contains(v) { px.assigned.push(*v); } }
          // `accessed` (for same-checker repetition) stays that of the common prefix.
          out.push(Stmt::If { cond, then, els });
        }
        5 => {
          let avail = self.n_tasks - me as usize - 1;
          let span = 2 + rd.pick(avail - 1);
          let base = me as usize + 1 + rd.pick(avail - span + 1);
          let sel = if rd.chance(1, 4) { self.expr_px(rd, px, 1) } else { Expr::Var(self.rvar(rd, px)) };
          // One checker per target per execution: a Dyn require uses the per-target table at run time, which the
          // statement cannot express; so all targets in range must share the checker. Use the table entry of `base`
          // for the whole range and make sure Fixed requires of these targets in this task agree: the table is
          // overridden by `dyn_ochk` below.
          let chk = self.ochk(tb, base as TaskId);
          let consistent = (base..base + span).all(|u| self.ochk(tb, u as TaskId) == chk);
          if consistent {
            out.push(Stmt::Require { task: Target::Dyn { base: base as u8, span: span as u8, sel }, chk, var: self.wvar(rd, px) });
          } else {
            let u = base as TaskId;
            let st = Stmt::Require { task: Target::Fixed(u), chk: self.ochk(tb, u), var: self.wvar(rd, px) };
            px.accessed.push(st.clone());
            out.push(st);
            px.required.insert(u);
            for y in self.uncond[u as usize].iter() { px.required.insert(*y); }
          }
        }
        6 => {
          let span = 2 + rd.pick(self.n_src as usize - 1);
          let base = rd.pick(self.n_src as usize - span + 1);
          let sel = if rd.chance(1, 4) { self.expr_px(rd, px, 1) } else { Expr::Var(self.rvar(rd, px)) };
          let chk = self.rchk(tb, base as ResId);
          let consistent = (base..base + span).all(|r| self.rchk(tb, r as ResId) == chk && self.faulty(tb, r as ResId) == self.faulty(tb, base as ResId));
          if consistent {
            out.push(Stmt::Read { res: Target::Dyn { base: base as u8, span: span as u8, sel }, chk, faulty: self.faulty(tb, base as ResId), var: self.wvar(rd, px) });
          } else {
            let r = base as ResId;
            let st = Stmt::Read { res: Target::Fixed(r), chk: self.rchk(tb, r), faulty: self.faulty(tb, r), var: self.wvar(rd, px) };
            px.accessed.push(st.clone());
            out.push(st);
          }
        }
        9 => {
          // Value-dependent task failure: panics only for one particular observed value.
          let v = self.rvar(rd, px);
          out.push(Stmt::PanicIf { cond: Expr::Eq(Box::new(Expr::Var(v)), Box::new(Expr::Const(1 + rd.pick(4) as u8))) });
        }
        8 => {
          // Switch: read a source, then require one of two different tasks depending on what was seen.
          let r = rd.pick(self.n_src as usize) as ResId;
          let var = self.wvar(rd, px);
          let st = Stmt::Read { res: Target::Fixed(r), chk: self.rchk(tb, r), faulty: self.faulty(tb, r), var };
          px.accessed.push(st.clone());
          out.push(st);
          let span = self.n_tasks - me as usize - 1;
          let a = me + 1 + rd.pick(span) as TaskId;
          let mut b = me + 1 + rd.pick(span) as TaskId;
          if b == a { b = me + 1 + ((a - me) % span as TaskId); }
          let cond = match rd.pick(3) {
            0 => Expr::Lt(Box::new(Expr::Var(var)), Box::new(Expr::Const(2))),
            1 => Expr::Eq(Box::new(Expr::Var(var)), Box::new(Expr::Const(1 + rd.pick(4) as u8))),
            _ => Expr::Lt(Box::new(Expr::Const(1 + rd.pick(3) as u8)), Box::new(Expr::Var(var))),
          };
          let mut p1 = px.clone();
          let mut p2 = px.clone();
          let mut then = vec![];
          let sa = Stmt::Require { task: Target::Fixed(a), chk: self.ochk(tb, a), var: self.wvar(rd, &mut p1) };
          p1.accessed.push(sa.clone());
          p1.required.insert(a);
          for y in self.uncond[a as usize].iter() { p1.required.insert(*y); }
          then.push(sa);
          then.extend(self.block(me, tb, rd, &mut p1, depth + 1, 2));
          let mut els = vec![];
          if rd.chance(3, 4) {
            let sb = Stmt::Require { task: Target::Fixed(b), chk: self.ochk(tb, b), var: self.wvar(rd, &mut p2) };
            p2.accessed.push(sb.clone());
            p2.required.insert(b);
            for y in self.uncond[b as usize].iter() { p2.required.insert(*y); }
            els.push(sb);
            els.extend(self.block(me, tb, rd, &mut p2, depth + 1, 2));
          }
          px.required = p1.required.intersection(&p2.required).cloned().collect();
          px.written = p1.written.union(&p2.written).cloned().collect();
          for v in p1.assigned.iter().chain(p2.assigned.iter()) { if !px.assigned.contains(v) { px.assigned.push(*v); } }
          out.push(Stmt::If { cond, then, els });
        }
        _ => {
          // Multi-access: repeat an earlier access of this path with the same checker (into a possibly different var).
          let st = px.accessed[rd.pick(px.accessed.len())].clone();
          let other = self.cfg.multi_checker && rd.chance(2, 3);
          let st = match st {
            Stmt::Read { res, chk, faulty, .. } => {
              let chk = if other { let alts: Vec<RChk> = self.cfg.rchks.iter().cloned().filter(|c| *c != chk).collect(); if alts.is_empty() { chk } else { alts[rd.pick(alts.len())] } } else { chk };
              Stmt::Read { res, chk, faulty, var: self.wvar(rd, px) }
            }
            Stmt::Require { task, chk, .. } => {
              let chk = if other { let alts: Vec<OChk> = self.cfg.ochks.iter().cloned().filter(|c| *c != chk).collect(); if alts.is_empty() { chk } else { alts[rd.pick(alts.len())] } } else { chk };
              Stmt::Require { task, chk, var: self.wvar(rd, px) }
            }
            s => s,
          };
          out.push(st);
        }
      }
    }
    out
  }
}

fn uncond_requires(body: &[Stmt]) -> Vec<TaskId> {
  body.iter().filter_map(|s| if let Stmt::Require { task: Target::Fixed(u), .. } = s { Some(*u) } else { None }).collect()
}

pub fn build_program(g: &Genome, cfg: &GenCfg) -> Program { build_program_with(g, cfg, None) }

/// `force` = (number of tasks, number of resources) for role-changing programs whose modes share both.
pub fn build_program_with(g: &Genome, cfg: &GenCfg, force: Option<(usize, u8)>) -> Program {
  let mut lay = Rd::new(&g.layout);
  let mut cfg_local = cfg.clone();
  // Half of the cases use the default statement mix, the others one of six swarm profiles.
  let profile = if lay.chance(1, 2) { 1 + lay.pick(6) as u8 } else { 0 };
  if cfg.exact_share > 0 && lay.chance(cfg.exact_share, 10) {
    cfg_local.rchks = vec![RChk::Exact];
    cfg_local.ochks = vec![OChk::Equals, OChk::IEquals];
  }
  if cfg.multi_checker_share > 0 && lay.chance(cfg.multi_checker_share, 10) { cfg_local.multi_checker = true; }
  if cfg.task_panic_share > 0 && lay.chance(cfg.task_panic_share, 10) { cfg_local.panicky = true; }
  let cfg = &cfg_local;
  let n_tasks = match force { Some((n, _)) => n, None => g.tasks.len().clamp(1, cfg.max_tasks) };
  let (n_src, n_gen) = match force {
    Some((_, n_res)) => { let n_src = 1 + lay.pick(n_res as usize) as u8; (n_src, n_res - n_src) }
    None => (1 + lay.pick(cfg.max_src as usize) as u8, lay.pick(cfg.max_gen as usize + 1) as u8),
  };
  let n_res = n_src + n_gen;
  let mut writers = vec![];
  for _ in 0..n_gen {
    // Bias writers towards high task ids so that lower tasks can read what they generate.
    let w = n_tasks - 1 - lay.pick(n_tasks);
    writers.push(w as TaskId);
  }
  let mut init = BTreeMap::new();
  for r in 0..n_src {
    let v = lay.pick(5);
    if v < 4 { init.insert(r, v as Val); }
  }
  // Occasionally a generated resource exists before any build.
  for r in n_src..n_res {
    if lay.chance(1, 6) { init.insert(r, lay.pick(4) as Val); }
  }
  let mut b = Builder { cfg, n_tasks, n_src, n_res, writers: writers.clone(), uncond: vec![BTreeSet::new(); n_tasks], profile };
  let mut tasks: Vec<Script> = vec![Script::default(); n_tasks];
  for me in (0..n_tasks).rev() {
    let empty: Vec<u16> = vec![];
    let mut rd = Rd::new(g.tasks.get(me).unwrap_or(&empty));
    let tb = Tables {
      r_uniform: rd.chance(1, 2),
      o_uniform: rd.chance(1, 2),
      rseed: if rd.chance(1, 2) { rd.next() } else { 0 },
      oseed: if rd.chance(1, 2) { rd.next() } else { 0 },
      fseed: if cfg.faulty && rd.chance(3, 4) { 1 + rd.next() % 1000 } else { 0 },
      wseed: if cfg.wchks.len() > 1 && rd.chance(3, 4) { 1 + rd.next() % 1000 } else { 0 },
    };
    let mut px = PathCtx::default();
    let max = if cfg.wide { cfg.max_stmts + 3 } else { cfg.max_stmts };
    let body = b.block(me as TaskId, &tb, &mut rd, &mut px, 0, max);
    let out = if rd.chance(7, 8) { Some(b.expr_px(&mut rd, &px, 0)) } else { None };
    let mut unc = BTreeSet::new();
    for u in uncond_requires(&body) {
      unc.insert(u);
      for y in b.uncond[u as usize].iter() { unc.insert(*y); }
    }
    b.uncond[me] = unc;
    tasks[me] = Script { body, out };
  }
  Program { tasks, n_src, n_res, writers, init, panicky: cfg.panicky }
}

pub fn build_history(g: &Genome, prog: &Program, cfg: &GenCfg) -> History {
  let n_tasks = prog.n_tasks();
  let mut steps = vec![];
  let mut pending: Vec<ResId> = vec![];
  let n_gen = prog.n_res - prog.n_src;
  for (i, s) in g.steps.iter().enumerate().take(cfg.max_steps) {
    let mut rd = Rd::new(s);
    let mut kinds: Vec<u8> = vec![0, 0, 0, 1, 1, 1];
    if n_gen > 0 { kinds.push(2); }
    if cfg.bottom_up && (!prog.panicky || cfg.bu_with_task_panics) && i > 0 { for _ in 0..cfg.bottom_up_weight { kinds.push(3); } }
    if cfg.fault_steps { kinds.extend([4, 4]); }
    if cfg.panic_steps && i > 0 { kinds.extend([5, 5, 5]); }
    let k = if i == 0 { 0 } else { kinds[rd.pick(kinds.len())] };
    match k {
      0 => {
        let n_roots = 1 + rd.pick(if cfg.wide { 4 } else { 3 });
        let builds = (0..n_roots).map(|_| Build::TopDown(rd.pick(n_tasks) as TaskId)).collect();
        steps.push(Step::Session { builds });
      }
      1 => {
        let res = rd.pick(prog.n_src as usize) as ResId;
        let v = rd.pick(5);
        steps.push(Step::Change { res, val: if v < 4 { Some(v as Val) } else { None } });
        if !pending.contains(&res) { pending.push(res); }
      }
      2 => {
        let res = prog.n_src + rd.pick(n_gen as usize) as ResId;
        let v = rd.pick(5);
        steps.push(Step::Change { res, val: if v < 4 { Some(v as Val) } else { None } });
        if !pending.contains(&res) { pending.push(res); }
      }
      4 => {
        // Fault set: none, all, or a few (resource, checker kind) pairs.
        let faults: Vec<(ResId, RChk)> = match rd.pick(4) {
          0 => vec![],
          1 => (0..prog.n_res).flat_map(|r| RCHKS.iter().map(move |k| (r, *k))).collect(),
          _ => (0..1 + rd.pick(3)).map(|_| (rd.pick(prog.n_res as usize) as ResId, RCHKS[rd.pick(RCHKS.len())])).collect(),
        };
        steps.push(Step::SetFaults { faults });
      }
      5 => {
        // Abort the next build at its k-th task-side operation point, then build (same roots again later).
        let after = 1 + rd.pick(24) as u32;
        steps.push(Step::ArmPanic { after });
        let n_roots = 1 + rd.pick(2);
        let builds = (0..n_roots).map(|_| Build::TopDown(rd.pick(n_tasks) as TaskId)).collect();
        steps.push(Step::Session { builds });
      }
      _ => {
        if pending.is_empty() {
          let res = rd.pick(prog.n_res as usize) as ResId;
          let v = rd.pick(5);
          steps.push(Step::Change { res, val: if v < 4 { Some(v as Val) } else { None } });
          pending.push(res);
          if rd.chance(1, 2) {
            let res2 = rd.pick(prog.n_res as usize) as ResId;
            let v = rd.pick(5);
            steps.push(Step::Change { res: res2, val: if v < 4 { Some(v as Val) } else { None } });
            if !pending.contains(&res2) { pending.push(res2); }
          }
        }
        let mut report = std::mem::take(&mut pending);
        if rd.chance(1, 2) { report.reverse(); }
        if cfg.arbitrary_reports && rd.chance(2, 3) {
          // Drop some changed resources from the report (they stay unreported for good) and maybe add unrelated ones.
          let keep = rd.next();
          report = report.into_iter().enumerate().filter(|(i, _)| keep & (1 << (i % 16)) != 0).map(|(_, r)| r).collect();
        }
        let n_then = rd.pick(3);
        let then = (0..n_then).map(|_| rd.pick(n_tasks) as TaskId).collect();
        let mut builds = vec![];
        // Mixed session: top-down requires before the bottom-up build (same session, same external state).
        if cfg.mixed_sessions && rd.chance(1, 4) {
          for _ in 0..1 + rd.pick(2) { builds.push(Build::TopDown(rd.pick(n_tasks) as TaskId)); }
        }
        // Over-report: resources that did not change are reported as well (at any position of the report).
        if cfg.over_report && rd.chance(1, 3) {
          for _ in 0..1 + rd.pick(2) {
            let extra = rd.pick(prog.n_res as usize) as ResId;
            if !report.contains(&extra) { let at = rd.pick(report.len() + 1); report.insert(at, extra); }
          }
          // ... or the same resource is reported twice (the second scheduling pass finds its tasks already scheduled).
          if !report.is_empty() && rd.chance(1, 3) { let dup = report[rd.pick(report.len())]; let at = rd.pick(report.len() + 1); report.insert(at, dup); }
        }
        builds.push(Build::BottomUp { report, then });
        // Long session: further rounds of (external changes while the session stays open, bottom-up build reporting
        // exactly those, requires afterwards).
        if cfg.mid_session_changes && rd.chance(1, 2) {
          for _ in 0..1 + rd.pick(3) {
            let mut rep = vec![];
            for _ in 0..1 + rd.pick(2) {
              let res = rd.pick(prog.n_res as usize) as ResId;
              let v = rd.pick(5);
              builds.push(Build::Change { res, val: if v < 4 { Some(v as Val) } else { None } });
              if !rep.contains(&res) { rep.push(res); }
            }
            let then2 = (0..rd.pick(3)).map(|_| rd.pick(n_tasks) as TaskId).collect();
            builds.push(Build::BottomUp { report: rep, then: then2 });
          }
          steps.push(Step::Session { builds });
          continue;
        }
        // A second bottom-up build in the same session: nothing changed in between, whatever it reports.
        if cfg.mixed_sessions && rd.chance(1, 5) {
          let mut report2 = vec![];
          for _ in 0..rd.pick(3) { let r = rd.pick(prog.n_res as usize) as ResId; if !report2.contains(&r) { report2.push(r); } }
          let then2 = (0..rd.pick(2)).map(|_| rd.pick(n_tasks) as TaskId).collect();
          builds.push(Build::BottomUp { report: report2, then: then2 });
        }
        steps.push(Step::Session { builds });
      }
    }
  }
  History { steps }
}

pub fn build_case(g: &Genome, cfg: &GenCfg) -> Case {
  let prog = build_program(g, cfg);
  let hist = build_history(g, &prog, cfg);
  Case { prog, hist, inject: None }
}

pub fn case_strategy(cfg: GenCfg) -> impl Strategy<Value=Case> {
  genome_strategy(&cfg).prop_map(move |g| build_case(&g, &cfg))
}

// ---------------------------------------------------------------------------------------------------------------------
// Injection operators (C05, C06, C07): take a well-formed program and add one violation.

fn strip_writes(block: &mut Vec<Stmt>, g: ResId) {
  block.retain(|s| !matches!(s, Stmt::Write { res: Target::Fixed(r), .. } if *r == g));
  for s in block.iter_mut() {
    if let Stmt::If { then, els, .. } = s { strip_writes(then, g); strip_writes(els, g); }
  }
}

/// Picks (or creates) a generated resource and makes its designated writer write it unconditionally.
fn unconditional_generated(prog: &mut Program, rd: &mut Rd) -> (ResId, TaskId) {
  let n_gen = (prog.n_res - prog.n_src) as usize;
  let n_tasks = prog.n_tasks();
  let g = if n_gen == 0 || rd.chance(1, 5) {
    prog.n_res += 1;
    prog.writers.push(rd.pick(n_tasks) as TaskId);
    prog.n_res - 1
  } else {
    prog.n_src + rd.pick(n_gen) as ResId
  };
  let w = prog.writers[(g - prog.n_src) as usize];
  let body = &mut prog.tasks[w as usize].body;
  strip_writes(body, g);
  let via = if rd.chance(1, 4) { Via::WrittenTo } else { Via::Ctx };
  let val = if rd.chance(1, 2) { Expr::Const(rd.pick(4) as u8) } else { Expr::Var(rd.pick(GVARS) as u8) };
  let at = rd.pick(body.len() + 1);
  body.insert(at, Stmt::Write { res: Target::Fixed(g), chk: RChk::Exact, faulty: false, val, via });
  (g, w)
}

pub fn inject_hidden(case: &mut Case, stream: &[u16]) {
  let mut rd = Rd::new(stream);
  if case.prog.n_tasks() < 2 { case.prog.tasks.push(Script::default()); }
  let (g, w) = unconditional_generated(&mut case.prog, &mut rd);
  let n = case.prog.n_tasks();
  let mut x = rd.pick(n) as TaskId;
  if x == w { x = (w + 1) % n as TaskId; }
  let chk = RCHKS[rd.pick(RCHKS.len())];
  let body = &mut case.prog.tasks[x as usize].body;
  let at = rd.pick(body.len() + 1);
  body.insert(at, Stmt::Read { res: Target::Fixed(g), chk, faulty: false, var: rd.pick(GVARS) as u8 });
  case.inject = Some(Inject::Hidden { g, writer: w, reader: x });
}

pub fn inject_overlap(case: &mut Case, stream: &[u16]) {
  let mut rd = Rd::new(stream);
  if case.prog.n_tasks() < 2 { case.prog.tasks.push(Script::default()); }
  let (g, w) = unconditional_generated(&mut case.prog, &mut rd);
  let n = case.prog.n_tasks();
  let mut w2 = rd.pick(n) as TaskId;
  if w2 == w { w2 = (w + 1) % n as TaskId; }
  let via = if rd.chance(1, 3) { Via::WrittenTo } else { Via::Ctx };
  let val = Expr::Const(rd.pick(4) as u8);
  let body = &mut case.prog.tasks[w2 as usize].body;
  // The second writer must not also read g (P2) - remove such reads at top level; nested reads of g cannot exist for a
  // task that is not a legitimate reader unless w2 < w, in which case they are kept (they require w first).
  let at = rd.pick(body.len() + 1);
  body.insert(at, Stmt::Write { res: Target::Fixed(g), chk: RChk::Exact, faulty: false, val, via });
  case.inject = Some(Inject::Overlap { g, w1: w, w2 });
}

fn may_require(block: &[Stmt], out: &mut BTreeSet<TaskId>) {
  for s in block {
    match s {
      Stmt::Require { task: Target::Fixed(u), .. } => { out.insert(*u); }
      Stmt::Require { task: Target::Dyn { base, span, .. }, .. } => { for u in *base..*base + *span { out.insert(u); } }
      Stmt::If { then, els, .. } => { may_require(then, out); may_require(els, out); }
      _ => {}
    }
  }
}

pub fn inject_cycle(case: &mut Case, stream: &[u16]) { inject_cycle_with(case, stream, false) }

pub fn inject_cycle_with(case: &mut Case, stream: &[u16], force_guard: bool) {
  let mut rd = Rd::new(stream);
  let n = case.prog.n_tasks();
  // may-reach relation over the static require structure
  let direct: Vec<BTreeSet<TaskId>> = case.prog.tasks.iter().map(|t| { let mut s = BTreeSet::new(); may_require(&t.body, &mut s); s }).collect();
  let mut pairs: Vec<(TaskId, TaskId)> = vec![];
  for l in 0..n {
    let mut seen = BTreeSet::new();
    let mut stack = vec![l as TaskId];
    while let Some(x) = stack.pop() {
      for y in direct[x as usize].iter() { if seen.insert(*y) { stack.push(*y); } }
    }
    for u in seen { pairs.push((u, l as TaskId)); }
  }
  // (from = U, to = L): U requires L, where L may reach U. Self loops are always available.
  for t in 0..n { pairs.push((t as TaskId, t as TaskId)); }
  // Prefer real cycles of length >= 2 (they come first in the list) most of the time.
  let non_self = pairs.len() - n;
  let (from, to) = if non_self > 0 && !rd.chance(1, 6) { pairs[rd.pick(non_self)] } else { pairs[non_self + rd.pick(n)] };
  let chk = OCHKS[rd.pick(OCHKS.len())];
  let req = Stmt::Require { task: Target::Fixed(to), chk, var: rd.pick(GVARS) as u8 };
  let guarded = case.prog.n_src > 0 && (rd.chance(1, 2) || force_guard);
  let body = &mut case.prog.tasks[from as usize].body;
  let at = rd.pick(body.len() + 1);
  if guarded {
    let src = if force_guard {
      let srcs = guard_sources(body, case.prog.n_src);
      if srcs.is_empty() { return; }
      srcs[rd.pick(srcs.len())]
    } else { rd.pick(case.prog.n_src as usize) as ResId };
    let var = 3;
    let cond = match rd.pick(3) {
      0 => Expr::Lt(Box::new(Expr::Var(var)), Box::new(Expr::Const(2))),
      1 => Expr::Lt(Box::new(Expr::Const(1)), Box::new(Expr::Var(var))),
      _ => Expr::Eq(Box::new(Expr::Var(var)), Box::new(Expr::Const(1 + rd.pick(4) as u8))),
    };
    body.insert(at, Stmt::If { cond, then: vec![req], els: vec![] });
    body.insert(at, Stmt::Read { res: Target::Fixed(src), chk: RChk::Exact, faulty: false, var });
  } else {
    body.insert(at, req);
  }
  case.inject = Some(Inject::Cycle { from, to, guarded });
}

/// Sources that `body` reads nowhere with a checker other than the plain exact one (P5: one checker per target per
/// execution - the guard read uses the exact checker).
fn guard_sources(body: &[Stmt], n_src: u8) -> Vec<ResId> {
  fn clash(block: &[Stmt], r: ResId) -> bool {
    block.iter().any(|s| match s {
      Stmt::Read { res: Target::Fixed(x), chk, faulty, .. } => *x == r && (*chk != RChk::Exact || *faulty),
      Stmt::Read { res: Target::Dyn { base, span, .. }, chk, faulty, .. } => *base <= r && r < *base + *span && (*chk != RChk::Exact || *faulty),
      Stmt::If { then, els, .. } => clash(then, r) || clash(els, r),
      _ => false,
    })
  }
  (0..n_src).filter(|r| !clash(body, *r)).collect()
}

/// Wraps `stmt` into `v3 = read src [Exact]; if cond(v3) { stmt }`, inserted at `at` of `body`.
fn insert_guarded(body: &mut Vec<Stmt>, at: usize, stmt: Stmt, src: ResId, rd: &mut Rd) {
  let var = 3;
  let cond = match rd.pick(3) {
    0 => Expr::Lt(Box::new(Expr::Var(var)), Box::new(Expr::Const(2))),
    1 => Expr::Lt(Box::new(Expr::Const(1)), Box::new(Expr::Var(var))),
    _ => Expr::Eq(Box::new(Expr::Var(var)), Box::new(Expr::Const(1 + rd.pick(4) as u8))),
  };
  body.insert(at, Stmt::If { cond, then: vec![stmt], els: vec![] });
  body.insert(at, Stmt::Read { res: Target::Fixed(src), chk: RChk::Exact, faulty: false, var });
}

/// A hidden dependency, an overlapping write or a cycle that exists only in some states of source `src`: either the
/// offending access is guarded, or (hidden/overlap) the designated writer's write is.
pub fn inject_guarded(case: &mut Case, stream: &[u16]) {
  let mut rd = Rd::new(stream);
  if case.prog.n_src == 0 { return; }
  let kind = rd.pick(3);
  if kind == 2 {
    inject_cycle_with(case, &stream[1.min(stream.len())..], true);
    if case.inject.is_some() { case.inject = Some(Inject::Guarded { kind: "cycle".into(), src: 0 }); }
    return;
  }
  if case.prog.n_tasks() < 2 { case.prog.tasks.push(Script::default()); }
  let (g, w) = unconditional_generated(&mut case.prog, &mut rd);
  let n = case.prog.n_tasks();
  // The offending task must not be able to reach the designated writer in any state: a task that reads g and requires
  // the writer *afterwards* has a real hidden dependency that pie accepts from scratch (DESIGN P4) - not a domain in
  // which any property makes a claim.
  let direct: Vec<BTreeSet<TaskId>> = case.prog.tasks.iter().map(|t| { let mut s = BTreeSet::new(); may_require(&t.body, &mut s); s }).collect();
  let may_reach = |from: TaskId, to: TaskId| -> bool {
    let mut seen = BTreeSet::new();
    let mut stack = vec![from];
    while let Some(y) = stack.pop() { for z in direct[y as usize].iter() { if *z == to { return true; } if seen.insert(*z) { stack.push(*z); } } }
    false
  };
  fn reads_res(block: &[Stmt], g: ResId) -> bool {
    block.iter().any(|s| match s {
      Stmt::Read { res: Target::Fixed(r), .. } => *r == g,
      Stmt::Read { res: Target::Dyn { base, span, .. }, .. } => *base <= g && g < *base + *span,
      Stmt::If { then, els, .. } => reads_res(then, g) || reads_res(els, g),
      _ => false,
    })
  }
  let readers: Vec<TaskId> = (0..n as TaskId).filter(|t| reads_res(&case.prog.tasks[*t as usize].body, g)).collect();
  let cands: Vec<TaskId> = (0..n as TaskId).filter(|t| *t != w && !may_reach(*t, w)).filter(|t| {
    // A second writer must not read g itself (P2), and no reader of g may require it after reading (P4 again: in the
    // states in which it is the only writer, such a reader has read g before requiring its generator).
    kind != 1 || (!readers.contains(t) && !readers.iter().any(|y| may_reach(*y, *t)))
  }).collect();
  if cands.is_empty() { return; }
  let x = cands[rd.pick(cands.len())];
  let guard_writer_side = rd.chance(1, 3);
  let guarded_task = if guard_writer_side { w } else { x };
  let srcs = guard_sources(&case.prog.tasks[guarded_task as usize].body, case.prog.n_src);
  if srcs.is_empty() { return; }
  let src = srcs[rd.pick(srcs.len())];
  let offending = if kind == 1 {
    let via = if rd.chance(1, 3) { Via::WrittenTo } else { Via::Ctx };
    Stmt::Write { res: Target::Fixed(g), chk: RChk::Exact, faulty: false, val: Expr::Const(rd.pick(4) as u8), via }
  } else {
    Stmt::Read { res: Target::Fixed(g), chk: RCHKS[rd.pick(RCHKS.len())], faulty: false, var: rd.pick(3) as u8 }
  };
  if guard_writer_side {
    // The designated writer writes g only in some states; the offending access is unconditional.
    let body = &mut case.prog.tasks[w as usize].body;
    if let Some(pos) = body.iter().position(|s| matches!(s, Stmt::Write { res: Target::Fixed(r), .. } if *r == g)) {
      let wr = body.remove(pos);
      insert_guarded(body, pos, wr, src, &mut rd);
    }
    let body = &mut case.prog.tasks[x as usize].body;
    let at = rd.pick(body.len() + 1);
    body.insert(at, offending);
  } else {
    let body = &mut case.prog.tasks[x as usize].body;
    let at = rd.pick(body.len() + 1);
    insert_guarded(body, at, offending, src, &mut rd);
  }
  case.inject = Some(Inject::Guarded { kind: if kind == 1 { "overlap".into() } else { "hidden".into() }, src });
}

#[derive(Clone, Copy, Debug, PartialEq, Eq)]
pub enum InjectKind { Hidden, Overlap, Cycle, Guarded }

/// `plain_share` out of 10 cases stay un-injected (negative half).
pub fn injected_case_strategy(cfg: GenCfg, kind: InjectKind, plain_share: u32) -> impl Strategy<Value=Case> {
  (genome_strategy(&cfg), proptest::collection::vec(any::<u16>(), 12), 0u32..10).prop_map(move |(g, inj, roll)| {
    let mut case = build_case(&g, &cfg);
    if roll >= plain_share {
      match kind {
        InjectKind::Hidden => inject_hidden(&mut case, &inj),
        InjectKind::Overlap => inject_overlap(&mut case, &inj),
        InjectKind::Cycle => inject_cycle(&mut case, &inj),
        InjectKind::Guarded => inject_guarded(&mut case, &inj),
      }
      // Histories were built for the original task count; roots stay valid (tasks are only added).
    }
    case
  })
}

// ---------------------------------------------------------------------------------------------------------------------
// Role-changing programs (C20): well-formed in every state, but who writes / reads / requires whom depends on a
// `mode` source resource that every task reads first.

fn rename_block(block: &[Stmt], perm: &[TaskId]) -> Vec<Stmt> {
  block.iter().map(|s| match s {
    Stmt::Require { task: Target::Fixed(u), chk, var } => Stmt::Require { task: Target::Fixed(perm[*u as usize]), chk: *chk, var: *var },
    Stmt::If { cond, then, els } => Stmt::If { cond: cond.clone(), then: rename_block(then, perm), els: rename_block(els, perm) },
    other => other.clone(),
  }).collect()
}

#[derive(Serialize, Deserialize, Clone, Debug, PartialEq, Eq, Hash, Default)]
pub struct RoleGenome {
  pub modes: Vec<Genome>,
  pub layout: Vec<u16>,
  pub steps: Vec<Vec<u16>>,
}

pub fn role_genome_strategy(cfg: &GenCfg) -> impl Strategy<Value=RoleGenome> {
  (
    proptest::collection::vec(genome_strategy(cfg), 2..=3),
    proptest::collection::vec(any::<u16>(), 0..=24),
    proptest::collection::vec(proptest::collection::vec(any::<u16>(), 0..=10), 2..=cfg.max_steps),
  ).prop_map(|(modes, layout, steps)| RoleGenome { modes, layout, steps })
}

pub fn build_role_case(g: &RoleGenome, cfg: &GenCfg) -> Case {
  let mut cfg = cfg.clone();
  cfg.dyn_targets = false; // ranges of task ids cannot be permuted
  cfg.exact_share = 0;
  let mut lay = Rd::new(&g.layout);
  let n_tasks = 2 + lay.pick(cfg.max_tasks - 1);
  let n_res = 2 + lay.pick((cfg.max_src + cfg.max_gen) as usize - 1) as u8;
  let mode_res: ResId = n_res;
  let n_modes = g.modes.len();
  let mut progs = vec![];
  let mut perms: Vec<Vec<TaskId>> = vec![];
  for (m, mg) in g.modes.iter().enumerate() {
    progs.push(build_program_with(mg, &cfg, Some((n_tasks, n_res))));
    // perm[position] = task id
    let mut perm: Vec<TaskId> = (0..n_tasks as TaskId).collect();
    if m > 0 {
      for i in (1..n_tasks).rev() { let j = lay.pick(i + 1); perm.swap(i, j); }
      // make sure at least one inversion relative to mode 0 when possible
      if perm.iter().enumerate().all(|(i, p)| i as TaskId == *p) && n_tasks >= 2 { perm.swap(0, n_tasks - 1); }
    }
    perms.push(perm);
  }
  let mode_var = GVARS as u8; // reserved variable 4
  let mut tasks = vec![];
  for t in 0..n_tasks {
    let mut body = vec![Stmt::Read { res: Target::Fixed(mode_res), chk: RChk::Exact, faulty: false, var: mode_var }];
    // nested if-else chain over modes; the last mode is the else branch
    let mut chain: Vec<Stmt> = vec![];
    let mut out: Option<Expr> = None;
    for m in (0..n_modes).rev() {
      let pos = perms[m].iter().position(|x| *x as usize == t).unwrap();
      let b = rename_block(&progs[m].tasks[pos].body, &perms[m]);
      let o = progs[m].tasks[pos].out.clone().unwrap_or(Expr::Const(0));
      if m == n_modes - 1 {
        chain = b;
        out = Some(o);
      } else {
        let cond = Expr::Eq(Box::new(Expr::Var(mode_var)), Box::new(Expr::Const(m as u8 + 1)));
        chain = vec![Stmt::If { cond: cond.clone(), then: b, els: chain }];
        out = Some(Expr::Ite(Box::new(cond), Box::new(o), Box::new(out.unwrap())));
      }
    }
    body.extend(chain);
    tasks.push(Script { body, out });
  }
  let mut init = progs[0].init.clone();
  init.insert(mode_res, 0);
  let prog = Program { tasks, n_src: n_res + 1, n_res: n_res + 1, writers: vec![], init, panicky: false };
  // History: sessions, mode flips, other changes, bottom-up builds with complete reports.
  let mut steps = vec![];
  let mut pending: Vec<ResId> = vec![];
  for (i, s) in g.steps.iter().enumerate().take(cfg.max_steps) {
    let mut rd = Rd::new(s);
    let k = if i == 0 { 0 } else { [0, 0, 0, 1, 1, 1, 2, 2, 3][rd.pick(if cfg.bottom_up { 9 } else { 8 })] };
    match k {
      0 => {
        let n_roots = 1 + rd.pick(3);
        steps.push(Step::Session { builds: (0..n_roots).map(|_| Build::TopDown(rd.pick(n_tasks) as TaskId)).collect() });
      }
      1 => {
        let v = rd.pick(n_modes) as Val;
        steps.push(Step::Change { res: mode_res, val: Some(v) });
        if !pending.contains(&mode_res) { pending.push(mode_res); }
      }
      2 => {
        let res = rd.pick(n_res as usize) as ResId;
        let v = rd.pick(5);
        steps.push(Step::Change { res, val: if v < 4 { Some(v as Val) } else { None } });
        if !pending.contains(&res) { pending.push(res); }
      }
      _ => {
        let report = std::mem::take(&mut pending);
        let n_then = rd.pick(3);
        steps.push(Step::Session { builds: vec![Build::BottomUp { report, then: (0..n_then).map(|_| rd.pick(n_tasks) as TaskId).collect() }] });
      }
    }
  }
  Case { prog, hist: History { steps }, inject: None }
}

pub fn role_case_strategy(cfg: GenCfg) -> impl Strategy<Value=Case> {
  role_genome_strategy(&cfg).prop_map(move |g| build_role_case(&g, &cfg))
}
