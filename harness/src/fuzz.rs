//! Entry points for coverage-guided fuzzing (cargo-fuzz / libFuzzer): bytes are decoded by the same constructive
//! builders as the proptest generators, and the same oracles run inside the target.

use crate::dag::{self, DagCase, DagOp, Tag};
use crate::driver::{Failure, Known, Stats};
use crate::gen::{self, GenCfg, Genome};
use crate::lang::Case;
use crate::props::build;

/// Decodes fuzzer bytes into a DAG operation sequence.
pub fn dag_case_from_bytes(data: &[u8]) -> DagCase {
  let mut it = data.iter().copied();
  let init = 2 + it.next().unwrap_or(0) % 9;
  let mut ops = vec![];
  while let Some(k) = it.next() {
    let mut w = || -> u16 { let a = it.next().unwrap_or(0); let b = it.next().unwrap_or(0); u16::from_le_bytes([a, b]) };
    let op = match k % 16 {
      0 => DagOp::AddNode,
      1..=8 => DagOp::AddEdge { s: w(), d: w(), data: k / 16 },
      9 | 10 => DagOp::ReAdd { k: w(), data: 4 + k / 64 },
      11 => DagOp::RemEdge { s: w(), d: w() },
      12 | 13 => DagOp::RemExisting { k: w() },
      14 => DagOp::RemOut { s: w() },
      _ => DagOp::RemNode { s: w() },
    };
    ops.push(op);
    if ops.len() >= 256 { break; }
  }
  DagCase { init, ops }
}

pub fn dag_case_to_bytes(c: &DagCase) -> Vec<u8> {
  let mut v = vec![c.init.saturating_sub(2) % 9];
  for op in &c.ops {
    match op {
      DagOp::AddNode => v.push(0),
      DagOp::AddEdge { s, d, data } => { v.push(1 + (data % 4) * 16); v.extend(s.to_le_bytes()); v.extend(d.to_le_bytes()); }
      DagOp::ReAdd { k, data } => { v.push(9 + (data.saturating_sub(4) % 4) * 64); v.extend(k.to_le_bytes()); }
      DagOp::RemEdge { s, d } => { v.push(11); v.extend(s.to_le_bytes()); v.extend(d.to_le_bytes()); }
      DagOp::RemExisting { k } => { v.push(12); v.extend(k.to_le_bytes()); }
      DagOp::RemOut { s } => { v.push(14); v.extend(s.to_le_bytes()); }
      DagOp::RemNode { s } => { v.push(15); v.extend(s.to_le_bytes()); }
    }
  }
  v
}

/// Fuzz target body for C10/C11. Panics on a violation (libFuzzer then stores the input).
pub fn dag_target(data: &[u8], which: Tag) {
  let case = dag_case_from_bytes(data);
  let mut facts = dag::DagFacts::default();
  let fails = dag::run_case(&case, true, &mut facts);
  if let Some((_, msg)) = fails.into_iter().find(|(t, _)| *t == which) {
    panic!("PV-FUZZ-VIOLATION {}", msg);
  }
}

pub fn fuzz_cfg(prop: &str) -> GenCfg {
  let spec = build::spec_of(prop).expect("fuzzable property");
  let mut c = (spec.cfg)(crate::driver::Tier::Thorough);
  c.max_tasks = 8;
  c.max_steps = 10;
  c
}

pub fn case_from_bytes(data: &[u8], prop: &str) -> Case {
  let cfg = fuzz_cfg(prop);
  let g = gen::genome_from_bytes(data, &cfg);
  gen::build_case(&g, &cfg)
}

/// Inverse of `genome_from_bytes` for seed corpora (pads task streams to a common length).
pub fn genome_to_bytes(g: &Genome, cfg: &GenCfg) -> Vec<u8> {
  let n_tasks = g.tasks.len().clamp(1, cfg.max_tasks);
  let n_steps = g.steps.len().clamp(1, cfg.max_steps);
  let mut v = vec![(n_tasks - 1) as u8, (n_steps - 1) as u8];
  for i in 0..12 { v.extend(g.layout.get(i).copied().unwrap_or(0).to_le_bytes()); }
  for s in 0..n_steps { for i in 0..6 { v.extend(g.steps[s].get(i).copied().unwrap_or(0).to_le_bytes()); } }
  let per = g.tasks.iter().take(n_tasks).map(|t| t.len()).max().unwrap_or(0).max(1);
  for t in 0..n_tasks { for i in 0..per { v.extend(g.tasks[t].get(i).copied().unwrap_or(0).to_le_bytes()); } }
  v
}

thread_local! { static KNOWN: std::cell::RefCell<Option<(String, Known)>> = std::cell::RefCell::new(None); }

/// Runs the oracle of `prop` (one of the build-based properties without injection) on the decoded case.
pub fn history_check(data: &[u8], prop: &str) -> Result<(), Failure> {
  let spec = build::spec_of(prop).expect("fuzzable property");
  let case = case_from_bytes(data, prop);
  let r = crate::driver::guarded(|| build::check(spec, &case, &mut Stats::dummy()));
  match r {
    Ok(()) => Ok(()),
    Err(f) => {
      let attributed = KNOWN.with(|k| {
        let mut k = k.borrow_mut();
        if k.as_ref().map(|x| x.0 != prop).unwrap_or(true) { *k = Some((prop.to_string(), Known::load(prop))); }
        k.as_ref().unwrap().1.attributed(&f).is_some()
      });
      if attributed { Ok(()) } else { Err(f) }
    }
  }
}

pub fn history_target(data: &[u8]) {
  let prop = std::env::var("PV_FUZZ_PROP").unwrap_or_else(|_| "C01".to_string());
  if let Err(f) = history_check(data, &prop) {
    panic!("PV-FUZZ-VIOLATION {}", f.msg);
  }
}
