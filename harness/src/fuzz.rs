//! Entry points for coverage-guided fuzzing (cargo-fuzz / libFuzzer): bytes are decoded by the same constructive
//! builders as the proptest generators, and the same oracles run inside the target.

use crate::dag::{self, DagCase, DagOp, Tag};
use crate::driver::{Failure, Known, Stats};
use crate::gen::{self, GenCfg, Genome};
use crate::lang::Case;
use crate::props::build;

/// Decodes fuzzer bytes into a DAG operation sequence.
pub fn dag_case_from_bytes(data: &[u8]) -> DagCase {
  let mut it = data.iter().copied();
  let b0 = it.next().unwrap_or(0);
  let init = 2 + b0 % 9;
  // High bits of the first byte: sweep schedule (0 = sweep after every op).
  let sweep_every = match b0 / 64 { 0 | 1 => 0, 2 => 255, _ => 3 };
  let mut ops = vec![];
  while let Some(k) = it.next() {
    let mut w = || -> u16 { let a = it.next().unwrap_or(0); let b = it.next().unwrap_or(0); u16::from_le_bytes([a, b]) };
    let op = match k % 16 {
      0 => DagOp::AddNode,
      1..=8 => DagOp::AddEdge { s: w(), d: w(), data: k / 16 },
      9 | 10 => DagOp::ReAdd { k: w(), data: 4 + k / 64 },
      11 => DagOp::RemEdge { s: w(), d: w() },
      12 => DagOp::RemExisting { k: w() },
      13 => { if k / 16 % 2 == 0 { DagOp::Q { kind: k / 32, a: w(), b: w() } } else { DagOp::QAgain { k: k / 32 } } }
      14 => DagOp::RemOut { s: w() },
      _ => DagOp::RemNode { s: w() },
    };
    ops.push(op);
    if ops.len() >= 256 { break; }
  }
  DagCase { init, ops, sweep_every }
}

pub fn dag_case_to_bytes(c: &DagCase) -> Vec<u8> {
  let mut v = vec![c.init.saturating_sub(2) % 9 + match c.sweep_every { 0 => 0, 255 => 128, _ => 192 }];
  for op in &c.ops {
    match op {
      DagOp::AddNode => v.push(0),
      DagOp::AddEdge { s, d, data } => { v.push(1 + (data % 4) * 16); v.extend(s.to_le_bytes()); v.extend(d.to_le_bytes()); }
      DagOp::ReAdd { k, data } => { v.push(9 + (data.saturating_sub(4) % 4) * 64); v.extend(k.to_le_bytes()); }
      DagOp::RemEdge { s, d } => { v.push(11); v.extend(s.to_le_bytes()); v.extend(d.to_le_bytes()); }
      DagOp::RemExisting { k } => { v.push(12); v.extend(k.to_le_bytes()); }
      DagOp::RemOut { s } => { v.push(14); v.extend(s.to_le_bytes()); }
      DagOp::RemNode { s } => { v.push(15); v.extend(s.to_le_bytes()); }
      DagOp::Q { kind, a, b } => { v.push(13 + (kind % 8) * 32); v.extend(a.to_le_bytes()); v.extend(b.to_le_bytes()); }
      DagOp::QAgain { k } => { v.push(13 + 16 + (k % 8) * 32); }
      DagOp::Flip { .. } => {}
    }
  }
  v
}

/// Fuzz target body for C10/C11. Panics on a violation (libFuzzer then stores the input).
pub fn dag_target(data: &[u8], which: Tag) {
  let case = dag_case_from_bytes(data);
  let mut facts = dag::DagFacts::default();
  let fails = dag::run_case(&case, true, &mut facts);
  if let Some((_, msg)) = fails.into_iter().find(|(t, _)| *t == which) {
    panic!("PV-FUZZ-VIOLATION {}", msg);
  }
}

pub fn fuzz_cfg(prop: &str) -> GenCfg {
  let t = crate::driver::Tier::Thorough;
  let mut c = match prop {
    "C19:diag" | "C08:diag" => crate::props::diag::diag_cfg(t),
    "C20:guarded" => crate::props::diag::guarded_cfg(t),
    "C20:after-aborts" | "C06:after-aborts" => crate::props::roles::after_aborts_cfg(t),
    _ => (build::spec_of(base_prop(prop)).expect("fuzzable property").cfg)(t),
  };
  c.max_tasks = 8;
  c.max_steps = 10;
  c
}

/// Campaign kinds: a property id, or `<id>:<label>` for a sub-search with its own decoder and oracle.
fn base_prop(kind: &str) -> &str { kind.split(':').next().unwrap_or(kind) }

pub fn case_from_bytes(data: &[u8], prop: &str) -> Case {
  let cfg = fuzz_cfg(prop);
  let g = gen::genome_from_bytes(data, &cfg);
  let mut case = gen::build_case(&g, &cfg);
  // Injection operators read their choices from the layout words (reversed, so that they are not the words the program
  // layout consumed first); one case in ten stays un-injected, as in the proptest strategies.
  let inj: Vec<u16> = g.layout.iter().rev().cloned().collect();
  let plain = data.len() % 10 == 0;
  match prop {
    "C05" if !plain => gen::inject_hidden(&mut case, &inj),
    "C06" if data.len() % 10 >= 3 => gen::inject_overlap(&mut case, &inj),
    "C07" if !plain => gen::inject_cycle(&mut case, &inj),
    "C19:diag" | "C20:guarded" | "C08:diag" => gen::inject_guarded(&mut case, &inj),
    _ => {}
  }
  case
}

/// Inverse of `genome_from_bytes` for seed corpora (pads task streams to a common length).
pub fn genome_to_bytes(g: &Genome, cfg: &GenCfg) -> Vec<u8> {
  let n_tasks = g.tasks.len().clamp(1, cfg.max_tasks);
  let n_steps = g.steps.len().clamp(1, cfg.max_steps);
  let mut v = vec![(n_tasks - 1) as u8, (n_steps - 1) as u8];
  for i in 0..12 { v.extend(g.layout.get(i).copied().unwrap_or(0).to_le_bytes()); }
  for s in 0..n_steps { for i in 0..10 { v.extend(g.steps[s].get(i).copied().unwrap_or(0).to_le_bytes()); } }
  let per = g.tasks.iter().take(n_tasks).map(|t| t.len()).max().unwrap_or(0).max(1);
  for t in 0..n_tasks { for i in 0..per { v.extend(g.tasks[t].get(i).copied().unwrap_or(0).to_le_bytes()); } }
  v
}

thread_local! { static KNOWN: std::cell::RefCell<Option<(String, Known)>> = std::cell::RefCell::new(None); }

/// Runs the oracle of `prop` (one of the build-based properties without injection) on the decoded case.
pub fn history_check(data: &[u8], prop: &str) -> Result<(), Failure> {
  let case = case_from_bytes(data, prop);
  let r = crate::driver::guarded(|| match prop {
    "C19:diag" => crate::props::diag::check(&case, crate::props::diag::Mode::C19, &mut Stats::dummy()),
    "C20:guarded" => crate::props::diag::check(&case, crate::props::diag::Mode::C20, &mut Stats::dummy()),
    "C20:after-aborts" => crate::props::roles::check_after_aborts(&case, &mut Stats::dummy()),
    "C06:after-aborts" => crate::props::inject::replay_c06_after_aborts(&case),
    "C08:diag" => build::c08_diag_check(&case, &mut Stats::dummy()),
    _ => build::check(build::spec_of(base_prop(prop)).expect("fuzzable property"), &case, &mut Stats::dummy()),
  });
  match r {
    Ok(()) => Ok(()),
    Err(f) => {
      let attributed = KNOWN.with(|k| {
        let mut k = k.borrow_mut();
        if k.as_ref().map(|x| x.0 != prop).unwrap_or(true) { *k = Some((prop.to_string(), Known::load(base_prop(prop)))); }
        k.as_ref().unwrap().1.attributed(&f).is_some()
      });
      if attributed { Ok(()) } else { Err(f) }
    }
  }
}

pub fn history_target(data: &[u8]) {
  let prop = std::env::var("PV_FUZZ_PROP").unwrap_or_else(|_| "C01".to_string());
  if let Err(f) = history_check(data, &prop) {
    panic!("PV-FUZZ-VIOLATION {}", f.msg);
  }
}

// ---------------------------------------------------------------------------------------------------------------------
// Campaign driver used by the thorough tier: seed corpus from the proptest generators, `cargo +nightly fuzz run`,
// crash artifacts converted into JSON replay files.

use proptest::strategy::{Strategy, ValueTree};

pub fn write_seed_corpus(prop: &str, dir: &std::path::Path, n: usize, seed: u64) -> std::io::Result<usize> {
  std::fs::create_dir_all(dir)?;
  let rng = proptest::test_runner::TestRng::from_seed(proptest::test_runner::RngAlgorithm::ChaCha, &crate::driver::derive_seed(seed, &format!("{}/corpus", prop), 0));
  let mut runner = proptest::test_runner::TestRunner::new_with_rng(proptest::test_runner::Config::default(), rng);
  let mut written = 0;
  if prop == "C10" || prop == "C11" {
    let st = dag::case_strategy(8, 40);
    for i in 0..n {
      if let Ok(t) = st.new_tree(&mut runner) { std::fs::write(dir.join(format!("seed-{}", i)), dag_case_to_bytes(&t.current()))?; written += 1; }
    }
  } else {
    let cfg = fuzz_cfg(prop);
    let st = gen::genome_strategy(&cfg);
    for i in 0..n {
      if let Ok(t) = st.new_tree(&mut runner) { std::fs::write(dir.join(format!("seed-{}", i)), genome_to_bytes(&t.current(), &cfg))?; written += 1; }
    }
  }
  Ok(written)
}

/// Runs a libFuzzer campaign for `prop`; records statistics in the report and converts crashes into violations.
pub fn campaign(prop: &str, runs_per_worker: u64, workers: u32, report: &mut crate::driver::Report) {
  use serde_json::json;
  let root = crate::driver::verif_root();
  let fuzz_dir = root.join("harness").join("fuzz");
  let target = if prop == "C10" || prop == "C11" { "dag_ops" } else { "history" };
  let work = std::env::temp_dir().join(format!("pv-fuzz-{}-{}", prop.replace(':', "-"), std::process::id()));
  let corpus = work.join("corpus");
  let artifacts = work.join("artifacts");
  let _ = std::fs::remove_dir_all(&work);
  let _ = std::fs::create_dir_all(&artifacts);
  let seeded = write_seed_corpus(prop, &corpus, 200, report.seed).unwrap_or(0);
  // Committed golden inputs, if any.
  let golden = root.join("corpus").join(target);
  if let Ok(rd) = std::fs::read_dir(&golden) { for e in rd.flatten() { let _ = std::fs::copy(e.path(), corpus.join(e.file_name())); } }
  let seed = (report.seed % 1_000_000) + 1; // libFuzzer: 0 means random
  let out = std::process::Command::new("cargo")
    .current_dir(&fuzz_dir)
    .env("CARGO_NET_OFFLINE", "true")
    .env("PV_FUZZ_PROP", prop)
    .env("PV_VERIF_ROOT", &root)
    // No sanitizer: pie and pie_graph contain no unsafe code of note, and ASan's leak check reports the panic payloads
    // of expected (caught) aborts as crashes.
    .args(["+nightly", "fuzz", "run", "-s", "none", target, corpus.to_str().unwrap(), "--"])
    .arg(format!("-artifact_prefix={}/", artifacts.display()))
    .arg(format!("-runs={}", runs_per_worker))
    .arg(format!("-seed={}", seed))
    // A wall-clock cap per worker besides the run count: dag_ops inputs with many nodes are slow (all-pairs sweeps), and
    // a campaign that hits the cap has simply explored less - never a violation.
    .args(["-max_len=1024", "-len_control=0", "-print_final_stats=1", "-rss_limit_mb=4096", "-max_total_time=240"])
    .arg(format!("-jobs={}", workers)).arg(format!("-workers={}", workers))
    .output();
  let mut runs = 0u64;
  let mut new_units = 0u64;
  let mut cov = 0u64;
  match out {
    Err(e) => { report.extra.insert("fuzz_skipped".into(), json!(format!("cargo +nightly fuzz not runnable: {}", e))); }
    Ok(o) => {
      // Per-job logs fuzz-<n>.log are written to the fuzz dir's cwd.
      let mut texts = vec![String::from_utf8_lossy(&o.stderr).to_string(), String::from_utf8_lossy(&o.stdout).to_string()];
      for j in 0..workers { if let Ok(t) = std::fs::read_to_string(fuzz_dir.join(format!("fuzz-{}.log", j))) { texts.push(t); let _ = std::fs::remove_file(fuzz_dir.join(format!("fuzz-{}.log", j))); } }
      for t in &texts {
        for line in t.lines() {
          if let Some(x) = line.strip_prefix("stat::number_of_executed_units:") { runs += x.trim().parse::<u64>().unwrap_or(0); }
          if let Some(x) = line.strip_prefix("stat::new_units_added:") { new_units += x.trim().parse::<u64>().unwrap_or(0); }
          if line.contains(" cov: ") { if let Some(c) = line.split(" cov: ").nth(1).and_then(|r| r.split_whitespace().next()).and_then(|c| c.parse::<u64>().ok()) { cov = cov.max(c); } }
        }
      }
      if runs == 0 && !o.status.success() {
        let tail: String = texts[0].lines().rev().take(6).collect::<Vec<_>>().join(" | ");
        report.extra.insert("fuzz_skipped".into(), json!(format!("fuzz run failed to start: {}", tail)));
      }
    }
  }
  // Crashes.
  let mut crashes = 0;
  if let Ok(rd) = std::fs::read_dir(&artifacts) {
    let mut files: Vec<_> = rd.flatten().map(|e| e.path()).collect();
    files.sort();
    for f in files {
      let Ok(data) = std::fs::read(&f) else { continue; };
      crashes += 1;
      if prop == "C10" || prop == "C11" {
        let case = dag_case_from_bytes(&data);
        let which = if prop == "C10" { Tag::C10 } else { Tag::C11 };
        let mut facts = dag::DagFacts::default();
        let fails = std::panic::catch_unwind(std::panic::AssertUnwindSafe(|| dag::run_case(&case, true, &mut facts))).unwrap_or_else(|_| vec![(which, "the graph panicked".to_string())]);
        if let Some((_, msg)) = fails.into_iter().find(|(t, _)| *t == which) {
          report.violation("ops", &serde_json::to_value(&case).unwrap(), &Failure::new(format!("(found by libFuzzer) {}", msg)), &dag::pretty(&case));
        }
      } else if let Err(fl) = history_check(&data, prop) {
        let case = case_from_bytes(&data, prop);
        let label = prop.split(':').nth(1).unwrap_or("case");
        report.violation(label, &serde_json::to_value(&case).unwrap(), &Failure::new(format!("(found by libFuzzer) {}", fl.msg)), &crate::lang::pretty_case(&case));
      }
      if report.violations.len() >= 3 { break; }
    }
  }
  report.stats.evaluations += runs;
  let sfx = if prop.contains(':') { format!("[{}]", prop) } else { String::new() };
  report.extra.insert(format!("fuzz_target{}", sfx), json!(target));
  report.extra.insert(format!("fuzz_runs{}", sfx), json!(runs));
  report.extra.insert(format!("fuzz_new_units{}", sfx), json!(new_units));
  report.extra.insert(format!("fuzz_edge_coverage{}", sfx), json!(cov));
  report.extra.insert(format!("fuzz_seed_corpus{}", sfx), json!(seeded));
  report.extra.insert(format!("fuzz_crash_artifacts{}", sfx), json!(crashes));
  let _ = std::fs::remove_dir_all(&work);
}
