//! O5: trace acceptors. They walk the unified log of one session, feeding the shadow record (O3) and the real resource
//! state as they go, and state event by event what the properties say about top-down and bottom-up builds.

use std::collections::{BTreeMap, BTreeSet};

use crate::engine::{BuildResult, SessionRec};
use crate::interp::{ochk_text, ostamp_text, rchk_text, rstamp_text, Ev, Verdict, L};
use crate::lang::*;
use crate::model::{consistent_o, consistent_r, Dep, Shadow};

#[derive(Clone, Debug)]
pub struct Finding {
  pub tag: &'static str,
  pub msg: String,
}

/// Facts measured while accepting (for class counters and non-triviality rules).
#[derive(Clone, Debug, Default)]
pub struct Facts {
  pub executed: Vec<TaskId>,
  pub reused: Vec<TaskId>,
  pub re_executed: Vec<TaskId>,
  pub first_executed: Vec<TaskId>,
  pub max_checks_in_frame: usize,
  pub checks: u64,
  pub inconsistent_checks: u64,
  pub error_checks: u64,
  /// A task was reused although a task it (transitively) requires was executed in this session.
  pub early_cutoff: bool,
  pub dropped_require: bool,
  pub added_require: bool,
  pub coarse_ignored_change: bool,
  pub max_depth: usize,
  // bottom-up
  pub scheduled: Vec<TaskId>,
  pub max_queue: usize,
  pub bu_executed: Vec<TaskId>,
  pub bu_cutoff: bool,
  pub bu_nested_drain: bool,
  pub bu_first_required: bool,
  /// The report named a resource that did not change before this session.
  pub bu_over_report: bool,
}

pub struct Acceptor<'a> {
  pub prog: &'a Program,
  log: &'a [L],
  pos: usize,
  end: usize,
  pub shadow: Shadow,
  pub state: BTreeMap<ResId, Val>,
  faults: BTreeSet<(ResId, RChk)>,
  /// Tasks validated (made consistent) in this session.
  pub validated: BTreeSet<TaskId>,
  pub executed_in_session: BTreeSet<TaskId>,
  /// Tasks executed in the current build (C04 speaks about one bottom-up build; a session may contain several).
  pub executed_in_build: BTreeSet<TaskId>,
  pub findings: Vec<Finding>,
  pub facts: Facts,
  depth: usize,
  /// Output of the previous execution of tasks re-executed in this session (for dropped/added require facts).
  prev_requires: BTreeMap<TaskId, Vec<TaskId>>,
  // bottom-up queue model
  pub queue: BTreeSet<TaskId>,
  in_bottom_up: bool,
  aborted: bool,
}

impl<'a> Acceptor<'a> {
  /// `shadow` is the shadow record at the start of the session.
  pub fn new(prog: &'a Program, log: &'a [L], shadow: Shadow, session: &SessionRec) -> Self {
    Self {
      prog, log, pos: 0, end: 0, shadow, state: session.state_before.clone(), faults: session.faults.clone(), validated: BTreeSet::new(), executed_in_session: BTreeSet::new(), executed_in_build: BTreeSet::new(),
      findings: vec![], facts: Facts::default(), depth: 0, prev_requires: BTreeMap::new(), queue: BTreeSet::new(), in_bottom_up: false, aborted: false,
    }
  }

  fn fail(&mut self, tag: &'static str, msg: String) {
    if self.findings.len() < 8 { self.findings.push(Finding { tag, msg: format!("@{} {}", self.pos, msg) }); }
  }

  /// Advances past non-tracker entries (feeding shadow and state) and returns the next tracker event without consuming.
  fn peek(&mut self) -> Option<Ev> {
    while self.pos < self.end {
      match &self.log[self.pos] {
        L::E(ev) => return Some(ev.clone()),
        other => {
          self.feed(&other.clone());
          self.pos += 1;
        }
      }
    }
    None
  }

  fn feed(&mut self, l: &L) {
    match l {
      L::RSet { r, val, .. } => { match val { Some(v) => { self.state.insert(*r, *v); } None => { self.state.remove(r); } } }
      L::ExtChange { r, val } => { match val { Some(v) => { self.state.insert(*r, *v % 4); } None => { self.state.remove(r); } } }
      L::TEnter(t) => {
        if let Some(e) = self.shadow.last.get(t) { if e.complete { self.prev_requires.insert(*t, e.requires()); } }
      }
      L::TExit(t, _) => {
        if let Some(prev) = self.prev_requires.get(t) {
          // compare after feeding below
          let prev = prev.clone();
          let mut sh = self.shadow.clone();
          sh.feed(l);
          if let Some(e) = sh.last.get(t) {
            let now = e.requires();
            if prev.iter().any(|x| !now.contains(x)) { self.facts.dropped_require = true; }
            if now.iter().any(|x| !prev.contains(x)) { self.facts.added_require = true; }
          }
        }
      }
      L::Aborted => { self.aborted = true; }
      _ => {}
    }
    self.shadow.feed(l);
  }

  fn next(&mut self) -> Option<Ev> {
    let ev = self.peek()?;
    self.pos += 1;
    Some(ev)
  }

  fn expect(&mut self, what: &str, f: impl Fn(&Ev) -> bool) -> Option<Ev> {
    match self.next() {
      Some(ev) if f(&ev) => Some(ev),
      Some(ev) => {
        if !self.aborted { self.fail("shape", format!("expected {} but got {:?}", what, ev)); }
        None
      }
      None => {
        if !self.aborted { self.fail("shape", format!("expected {} but the build's event stream ended", what)); }
        None
      }
    }
  }

  fn expected_res_verdict(&self, r: ResId, chk: RChk, faulty: bool, then: Option<Val>) -> Verdict {
    if faulty && self.faults.contains(&(r, chk)) { return Verdict::Error; }
    if consistent_r(chk, then, self.state.get(&r).copied()) { Verdict::Consistent } else { Verdict::Inconsistent }
  }

  // -------------------------------------------------------------------------------------------------------------------
  // Top-down

  /// Accepts one `Session::require(root)` build occupying `range` of the log.
  pub fn top_down_build(&mut self, root: TaskId, range: std::ops::Range<usize>, result: &BuildResult) {
    self.pos = range.start;
    self.end = range.end;
    self.aborted = false;
    self.in_bottom_up = false;
    self.executed_in_build.clear();
    let panicked = matches!(result, BuildResult::Panic(_));
    if self.expect("build_start", |e| matches!(e, Ev::BuildStart)).is_none() { return; }
    if self.expect("require_start(root)", |e| matches!(e, Ev::RequireStart { t, .. } if *t == root)).is_none() { return; }
    if !self.make_consistent(root) { self.drain(); return; }
    let out_now = self.shadow.last.get(&root).and_then(|e| e.out);
    match self.expect("require_end(root)", |e| matches!(e, Ev::RequireEnd { t, .. } if *t == root)) {
      Some(Ev::RequireEnd { out, .. }) => {
        if Some(out) != out_now { self.fail("require-end-output", format!("require_end(T{}) carries {:?} but the task's last execution returned {:?}", root, out, out_now)); }
        if let BuildResult::Out(o) = result { if *o != out { self.fail("require-end-output", format!("require_end(T{}) carries {:?} but Session::require returned {:?}", root, out, o)); } }
      }
      _ => { self.drain(); return; }
    }
    let _ = self.expect("build_end", |e| matches!(e, Ev::BuildEnd));
    if let Some(ev) = self.peek() { if !panicked { self.fail("shape", format!("events after build_end: {:?}", ev)); } }
    self.drain();
  }

  /// Skips a build without judging it (keeps shadow and state in sync).
  pub fn skip(&mut self, range: std::ops::Range<usize>) {
    self.pos = range.start;
    self.end = range.end;
    self.drain();
  }

  /// Consumes the rest of the build (after an abort or a shape failure) so that shadow and state stay in sync.
  fn drain(&mut self) {
    while self.pos < self.end {
      let l = self.log[self.pos].clone();
      if !matches!(l, L::E(_)) { self.feed(&l); }
      self.pos += 1;
    }
  }

  /// `make_task_consistent(t)` of the top-down context. Returns false if the stream ended (abort).
  fn make_consistent(&mut self, t: TaskId) -> bool {
    if self.validated.contains(&t) { return true; }
    self.depth += 1;
    self.facts.max_depth = self.facts.max_depth.max(self.depth);
    let (deps, has_output) = match self.shadow.last.get(&t) {
      Some(e) if e.complete => (e.deps(), true),
      _ => (vec![], false),
    };
    let mut justified = !has_output;
    let mut checked = 0usize;
    let mut dependency_executed = false;
    if has_output {
      for dep in deps.iter() {
        let Some(ev) = self.peek() else { self.depth -= 1; return false; };
        let is_check = matches!(ev, Ev::CheckTaskStart { .. } | Ev::CheckResStart { .. });
        if !is_check { break; }
        // The check must be of the next dependency in creation order.
        match (dep, &ev) {
          (Dep::Require { dst, chk, out }, Ev::CheckTaskStart { t: et, chk: ec, stamp: es }) if et == dst => {
            if *ec != ochk_text(*chk) || *es != ostamp_text(*chk, out) {
              self.fail("stamp", format!("T{}: check of require T{} uses checker/stamp {}/{} but the dependency was created with {}/{}", t, dst, ec, es, ochk_text(*chk), ostamp_text(*chk, out)));
            }
            self.next();
            let before = self.executed_in_session.len();
            if !self.make_consistent(*dst) { self.depth -= 1; return false; }
            if self.executed_in_session.len() > before { dependency_executed = true; }
            let now = self.shadow.last.get(dst).and_then(|e| e.out);
            let Some(Ev::CheckTaskEnd { inconsistent, .. }) = self.expect("check_task_end", |e| matches!(e, Ev::CheckTaskEnd { t: x, .. } if x == dst)) else { self.depth -= 1; return false; };
            self.facts.checks += 1;
            checked += 1;
            let expected = match now { Some(n) => !consistent_o(*chk, out, &n), None => true };
            if inconsistent != expected {
              self.fail("I2-verdict", format!("T{}: require T{} [{:?}] stamped {:?}, output now {:?}: pie says inconsistent={} but the checker's relation says {}", t, dst, chk, out, now, inconsistent, expected));
            }
            if inconsistent { self.facts.inconsistent_checks += 1; justified = true; break; }
          }
          (Dep::Read { r, chk, faulty, seen }, Ev::CheckResStart { r: er, chk: ec, stamp: es }) if er == r => {
            let then = *seen;
            if *ec != rchk_text(*chk, *faulty) || *es != rstamp_text(*chk, then) {
              self.fail("stamp", format!("T{}: check of read r{} uses checker/stamp {}/{} but the dependency was created with {}/{}", t, r, ec, es, rchk_text(*chk, *faulty), rstamp_text(*chk, then)));
            }
            self.next();
            let expected = self.expected_res_verdict(*r, *chk, *faulty, then);
            let Some(Ev::CheckResEnd { verdict, .. }) = self.expect("check_resource_end", |e| matches!(e, Ev::CheckResEnd { r: x, .. } if x == r)) else { self.depth -= 1; return false; };
            self.facts.checks += 1;
            checked += 1;
            if verdict != expected {
              self.fail("I2-verdict", format!("T{}: read r{} [{:?}] stamped from {:?}, value now {:?}: pie reports {:?} but the checker's relation says {:?}", t, r, chk, then, self.state.get(r), verdict, expected));
            }
            if verdict == Verdict::Consistent && then != self.state.get(r).copied() { self.facts.coarse_ignored_change = true; }
            match verdict { Verdict::Consistent => {} Verdict::Inconsistent => { self.facts.inconsistent_checks += 1; justified = true; break; } Verdict::Error => { self.facts.error_checks += 1; justified = true; break; } }
          }
          (Dep::Write { r, chk, faulty, val, .. }, Ev::CheckResStart { r: er, chk: ec, stamp: es }) if er == r => {
            let then = *val;
            if *ec != rchk_text(*chk, *faulty) || *es != rstamp_text(*chk, then) {
              self.fail("stamp", format!("T{}: check of write r{} uses checker/stamp {}/{} but the dependency was created with {}/{}", t, r, ec, es, rchk_text(*chk, *faulty), rstamp_text(*chk, then)));
            }
            self.next();
            let expected = self.expected_res_verdict(*r, *chk, *faulty, then);
            let Some(Ev::CheckResEnd { verdict, .. }) = self.expect("check_resource_end", |e| matches!(e, Ev::CheckResEnd { r: x, .. } if x == r)) else { self.depth -= 1; return false; };
            self.facts.checks += 1;
            checked += 1;
            if verdict != expected {
              self.fail("I2-verdict", format!("T{}: write r{} [{:?}] stamped from {:?}, value now {:?}: pie reports {:?} but the checker's relation says {:?}", t, r, chk, then, self.state.get(r), verdict, expected));
            }
            if verdict == Verdict::Consistent && then != self.state.get(r).copied() { self.facts.coarse_ignored_change = true; }
            match verdict { Verdict::Consistent => {} Verdict::Inconsistent => { self.facts.inconsistent_checks += 1; justified = true; break; } Verdict::Error => { self.facts.error_checks += 1; justified = true; break; } }
          }
          (dep, ev) => {
            self.fail("I3-order", format!("T{}: dependency #{} in creation order is {:?} but pie validates {:?} next (recorded list: {:?})", t, checked, dep, ev, deps));
            self.depth -= 1;
            return false;
          }
        }
      }
    }
    self.facts.max_checks_in_frame = self.facts.max_checks_in_frame.max(checked);
    // What follows: either the execution of t, or nothing more for t.
    let next = self.peek();
    let exec_follows = matches!(next, Some(Ev::ExecStart { t: x }) if x == t);
    // A further check of t after the loop ended (more checks than recorded dependencies, or after an inconsistency).
    if let Some(ev) = &next {
      if matches!(ev, Ev::CheckTaskStart { .. } | Ev::CheckResStart { .. }) {
        if justified {
          self.fail("I3-order", format!("T{}: validation continued with {:?} after a dependency was already inconsistent", t, ev));
        } else {
          self.fail("I3-order", format!("T{}: pie validates {:?} which is not among the dependencies of the task's last execution {:?}", t, ev, deps));
        }
        self.depth -= 1;
        return false;
      }
    }
    if exec_follows {
      if !justified {
        self.fail("I2-unjustified-exec", format!("T{} is executed although it completed before and all {} validated dependencies (of {}) were reported consistent", t, checked, deps.len()));
      }
      if self.executed_in_session.contains(&t) {
        self.fail("I1-double-exec", format!("T{} is executed a second time in this session", t));
      }
      if has_output { self.facts.re_executed.push(t); } else { self.facts.first_executed.push(t); }
      if !self.execution(t) { self.depth -= 1; return false; }
    } else {
      if self.aborted && next.is_none() { self.depth -= 1; return false; }
      if justified {
        self.fail("missing-exec", format!("T{}: a dependency was reported inconsistent (or the task has no output) but the task is not executed", t));
      } else if checked < deps.len() {
        self.fail("incomplete-validation", format!("T{} is reused after validating only {} of its {} recorded dependencies {:?}", t, checked, deps.len(), deps));
      }
      self.facts.reused.push(t);
      if dependency_executed { self.facts.early_cutoff = true; }
    }
    self.validated.insert(t);
    self.depth -= 1;
    true
  }

  /// `execute_start(t)` ... `execute_end(t)` with the task's operations in between.
  fn execution(&mut self, t: TaskId) -> bool {
    if self.expect("execute_start", |e| matches!(e, Ev::ExecStart { t: x } if *x == t)).is_none() { return false; }
    self.executed_in_session.insert(t);
    self.executed_in_build.insert(t);
    self.facts.executed.push(t);
    if self.in_bottom_up { self.facts.bu_executed.push(t); }
    loop {
      let Some(ev) = self.peek() else { return false; };
      match ev {
        Ev::ExecEnd { t: x, out } if x == t => {
          self.next();
          // The task-side exit must have been logged before execute_end and carry the same output.
          let tout = self.shadow.last.get(&t).and_then(|e| e.out);
          if tout != Some(out) { self.fail("exec-output", format!("execute_end(T{}) carries {:?} but the task returned {:?}", t, out, tout)); }
          return true;
        }
        Ev::RequireStart { t: u, .. } => {
          self.next();
          let ok = if self.in_bottom_up { self.bu_make_consistent(u) } else { self.make_consistent(u) };
          if !ok { return false; }
          let now = self.shadow.last.get(&u).and_then(|e| e.out);
          match self.expect("require_end", |e| matches!(e, Ev::RequireEnd { t: x, .. } if *x == u)) {
            Some(Ev::RequireEnd { out, .. }) => {
              if Some(out) != now { self.fail("require-end-output", format!("require_end(T{}) carries {:?} but the task's last execution returned {:?}", u, out, now)); }
            }
            _ => return false,
          }
        }
        Ev::ReadStart { r, .. } => {
          self.next();
          if self.expect("read_end", |e| matches!(e, Ev::ReadEnd { r: x, .. } if *x == r)).is_none() { return false; }
        }
        Ev::WriteStart { r, .. } => {
          self.next();
          if self.expect("write_end", |e| matches!(e, Ev::WriteEnd { r: x, .. } if *x == r)).is_none() { return false; }
        }
        other => {
          if !self.aborted { self.fail("shape", format!("unexpected {:?} inside the execution of T{}", other, t)); }
          return false;
        }
      }
    }
  }

  // -------------------------------------------------------------------------------------------------------------------
  // Bottom-up (filled in by accept_bu.rs through these fields)
}

// The bottom-up half lives in the same impl for access to private state.
include!("accept_bu.rs");
