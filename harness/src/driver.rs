//! Generic search driver: deterministic proptest generation, own shrink loop, sharding over threads, class counters,
//! known-finding attribution, replay files and evidence.

use std::cell::RefCell;
use std::collections::{BTreeMap, BTreeSet};
use std::hash::{Hash, Hasher};
use std::path::{Path, PathBuf};
use std::time::Instant;

use proptest::strategy::{Strategy, ValueTree};
use proptest::test_runner::{Config, RngAlgorithm, TestRng, TestRunner};
use serde::{de::DeserializeOwned, Serialize};
use serde_json::{json, Value};

#[derive(Clone, Copy, PartialEq, Eq, Debug)]
pub enum Tier { Quick, Thorough }

impl Tier {
  pub fn name(self) -> &'static str { match self { Tier::Quick => "quick", Tier::Thorough => "thorough" } }
}

/// A failed oracle. `sig` is the known-finding signature computed by the harness's own analysis (if any).
#[derive(Clone, Debug)]
pub struct Failure {
  pub msg: String,
  pub sig: Option<String>,
}

impl Failure {
  pub fn new(msg: impl Into<String>) -> Self { Self { msg: msg.into(), sig: None } }
  pub fn with_sig(msg: impl Into<String>, sig: impl Into<String>) -> Self { Self { msg: msg.into(), sig: Some(sig.into()) } }
}

pub type CheckResult = Result<(), Failure>;

/// Per-run statistics (merged over shards).
#[derive(Default, Clone)]
pub struct Stats {
  pub evaluations: u64,
  pub nontrivial: BTreeSet<u64>,
  pub classes: BTreeMap<String, u64>,
  pub samples: Vec<Value>,
  pub excluded: BTreeMap<String, u64>,
  pub extra: BTreeMap<String, u64>,
  /// When false (during shrinking / replay) nothing is recorded.
  pub live: bool,
}

impl Stats {
  pub fn new() -> Self { Self { live: true, ..Default::default() } }
  pub fn dummy() -> Self { Self { live: false, ..Default::default() } }
  pub fn class(&mut self, label: &str) { if self.live { *self.classes.entry(label.to_string()).or_insert(0) += 1; } }
  pub fn class_n(&mut self, label: &str, n: u64) { if self.live && n > 0 { *self.classes.entry(label.to_string()).or_insert(0) += n; } }
  pub fn add(&mut self, key: &str, n: u64) { if self.live { *self.extra.entry(key.to_string()).or_insert(0) += n; } }
  /// Record that the case with fingerprint `fp` is non-trivial by the property's rule.
  pub fn nontrivial(&mut self, fp: u64) { if self.live { self.nontrivial.insert(fp); } }
  pub fn sample(&mut self, f: impl FnOnce() -> Value) { if self.live && self.samples.len() < 3 { self.samples.push(f()); } }
  pub fn merge(&mut self, o: Stats) {
    self.evaluations += o.evaluations;
    self.nontrivial.extend(o.nontrivial);
    for (k, v) in o.classes { *self.classes.entry(k).or_insert(0) += v; }
    for (k, v) in o.excluded { *self.excluded.entry(k).or_insert(0) += v; }
    for (k, v) in o.extra { *self.extra.entry(k).or_insert(0) += v; }
    for s in o.samples { if self.samples.len() < 3 { self.samples.push(s); } }
  }
}

pub fn fingerprint<T: Hash>(t: &T) -> u64 {
  // FNV-1a based, deterministic across processes (no RandomState).
  struct Fnv(u64);
  impl Hasher for Fnv {
    fn finish(&self) -> u64 { self.0 }
    fn write(&mut self, bytes: &[u8]) { for b in bytes { self.0 ^= *b as u64; self.0 = self.0.wrapping_mul(0x100000001b3); } }
  }
  let mut h = Fnv(0xcbf29ce484222325);
  t.hash(&mut h);
  h.finish()
}

pub fn fingerprint_json<T: Serialize>(t: &T) -> u64 {
  fingerprint(&serde_json::to_string(t).unwrap_or_default())
}

/// Splitmix-style seed derivation from (VERIF_SEED, property, shard).
pub fn derive_seed(seed: u64, prop: &str, shard: u32) -> [u8; 32] {
  let mut x = seed ^ fingerprint(&prop) ^ ((shard as u64) << 32 | 0x9e37);
  let mut out = [0u8; 32];
  for chunk in out.chunks_mut(8) {
    x = x.wrapping_add(0x9e3779b97f4a7c15);
    let mut z = x;
    z = (z ^ (z >> 30)).wrapping_mul(0xbf58476d1ce4e5b9);
    z = (z ^ (z >> 27)).wrapping_mul(0x94d049bb133111eb);
    z ^= z >> 31;
    chunk.copy_from_slice(&z.to_le_bytes());
  }
  out
}

pub fn verif_root() -> PathBuf {
  if let Ok(p) = std::env::var("PV_VERIF_ROOT") { return PathBuf::from(p); }
  PathBuf::from("/verif")
}

/// Known findings file.
#[derive(Clone, Debug, Default)]
pub struct Known {
  /// signature -> (finding id, what) for this property.
  pub sigs: BTreeMap<String, (String, String, String)>,
}

impl Known {
  pub fn load(prop: &str) -> Known {
    let path = verif_root().join("known_findings.json");
    let mut k = Known::default();
    let Ok(text) = std::fs::read_to_string(&path) else { return k; };
    let Ok(v) = serde_json::from_str::<Value>(&text) else { return k; };
    if let Some(arr) = v.get("entries").and_then(|e| e.as_array()) {
      for e in arr {
        if e.get("kind").and_then(|x| x.as_str()) != Some("finding") { continue; }
        if e.get("property").and_then(|x| x.as_str()) != Some(prop) { continue; }
        let sig = e.get("signature").and_then(|x| x.as_str()).unwrap_or("").to_string();
        let id = e.get("id").and_then(|x| x.as_str()).unwrap_or("").to_string();
        let what = e.get("what").and_then(|x| x.as_str()).unwrap_or("").to_string();
        let replay = e.get("replay").and_then(|x| x.as_str()).unwrap_or("").to_string();
        k.sigs.insert(sig, (id, what, replay));
      }
    }
    k
  }
  pub fn attributed(&self, f: &Failure) -> Option<&str> {
    f.sig.as_ref().and_then(|s| self.sigs.get(s)).map(|(id, _, _)| id.as_str())
  }
}

/// A violation found by search (already shrunk).
pub struct Found {
  pub case: Value,
  pub failure: Failure,
  pub shard: u32,
  pub pretty: String,
}

pub struct SearchCfg<'a> {
  pub prop: &'a str,
  /// Sub-search label (a property may run several searches); used in seeds and replay files.
  pub label: &'a str,
  pub seed: u64,
  pub shards: u32,
  pub cases_per_shard: u32,
  pub max_shrink_iters: u32,
}

/// Runs `check` over generated cases on `shards` threads. `check` must be a pure function of the case.
/// Known-finding failures are counted and skipped. Returns merged stats and the first violation per shard order.
pub fn search<S, V, F, P>(cfg: &SearchCfg, known: &Known, make_strategy: impl Fn() -> S + Sync, check: F, pretty: P) -> (Stats, Option<Found>)
where
  S: Strategy<Value=V>,
  V: Serialize + std::fmt::Debug + Clone,
  F: Fn(&V, &mut Stats) -> CheckResult + Sync,
  P: Fn(&V) -> String + Sync,
{
  let results: Vec<(Stats, Option<Found>)> = std::thread::scope(|scope| {
    let handles: Vec<_> = (0..cfg.shards).map(|shard| {
      let check = &check;
      let pretty = &pretty;
      let make_strategy = &make_strategy;
      let known = &known;
      std::thread::Builder::new().stack_size(64 << 20).spawn_scoped(scope, move || {
        let strategy = make_strategy();
        let seed = derive_seed(cfg.seed, &format!("{}/{}", cfg.prop, cfg.label), shard);
        let rng = TestRng::from_seed(RngAlgorithm::ChaCha, &seed);
        let mut config = Config::default();
        config.failure_persistence = None;
        config.cases = cfg.cases_per_shard;
        let mut runner = TestRunner::new_with_rng(config, rng);
        let mut stats = Stats::new();
        let mut found = None;
        let journal = std::env::var("PV_JOURNAL").is_ok();
        let journal_path = verif_root().join("evidence").join("replays").join(format!("journal-{}-{}-{}.json", cfg.prop, cfg.label, shard));
        if journal { let _ = std::fs::create_dir_all(journal_path.parent().unwrap()); }
        for _ in 0..cfg.cases_per_shard {
          let mut tree = match strategy.new_tree(&mut runner) {
            Ok(t) => t,
            Err(_) => continue,
          };
          let v = tree.current();
          stats.evaluations += 1;
          // Journal mode (second pass after the process died): the case about to be evaluated is written out first, so
          // that the case that kills the process can be identified afterwards.
          let write_journal = |v: &V| {
            let tmp = journal_path.with_extension("tmp");
            let doc = json!({ "property": cfg.prop, "label": cfg.label, "seed": cfg.seed, "failure": "process died while evaluating this case", "signature": Value::Null, "pretty": pretty(v), "case": serde_json::to_value(v).unwrap_or(Value::Null) });
            if std::fs::write(&tmp, serde_json::to_string(&doc).unwrap_or_default()).is_ok() { let _ = std::fs::rename(&tmp, &journal_path); }
          };
          if journal { write_journal(&v); }
          let r = guarded(|| check(&v, &mut stats));
          let f = match r {
            Ok(()) => continue,
            Err(f) => f,
          };
          if let Some(id) = known.attributed(&f) {
            *stats.excluded.entry(id.to_string()).or_insert(0) += 1;
            continue;
          }
          // Shrink: keep failing with an unattributed failure.
          let mut best = (v, f);
          let mut iters = 0;
          let mut dummy = Stats::dummy();
          if tree.simplify() {
            loop {
              iters += 1;
              if iters > cfg.max_shrink_iters { break; }
              let c = tree.current();
              if journal { write_journal(&c); }
              let r = guarded(|| check(&c, &mut dummy));
              let failing = match r {
                Err(f) if known.attributed(&f).is_none() => Some(f),
                _ => None,
              };
              if let Some(f) = failing {
                best = (c, f);
                if !tree.simplify() { break; }
              } else if !tree.complicate() { break; }
            }
          }
          let case = serde_json::to_value(&best.0).unwrap_or(Value::Null);
          found = Some(Found { case, failure: best.1, shard, pretty: pretty(&best.0) });
          break;
        }
        if journal { let _ = std::fs::remove_file(&journal_path); }
        (stats, found)
      }).expect("spawn")
    }).collect();
    handles.into_iter().map(|h| h.join().expect("shard thread panicked")).collect()
  });
  let mut stats = Stats::new();
  let mut first = None;
  for (s, f) in results {
    stats.merge(s);
    if first.is_none() { first = f; }
  }
  (stats, first)
}

thread_local! {
  static LAST_PANIC: RefCell<Option<String>> = RefCell::new(None);
}

pub fn install_quiet_panic_hook() {
  let verbose = std::env::var("PV_VERBOSE").is_ok();
  std::panic::set_hook(Box::new(move |info| {
    let msg = if let Some(s) = info.payload().downcast_ref::<&str>() { s.to_string() } else if let Some(s) = info.payload().downcast_ref::<String>() { s.clone() } else { "<non-string panic>".to_string() };
    let loc = info.location().map(|l| format!("{}:{}", l.file(), l.line())).unwrap_or_default();
    if verbose { eprintln!("[panic] {} @ {}", msg, loc); }
    LAST_PANIC.with(|p| *p.borrow_mut() = Some(format!("{} @ {}", msg, loc)));
  }));
}

/// For fuzz targets: expected panics inside guarded builds stay quiet, but libFuzzer's abort-on-panic hook must still see
/// panics that escape the target. libfuzzer-sys installs its hook before `init`, so chain to it only for escapes: the
/// engine catches expected panics with catch_unwind, and a hook that aborts would kill the process on them. We therefore
/// replace the hook by a quiet one and let the target turn a violation into an explicit abort.
pub fn install_quiet_panic_hook_keep_abort() {
  std::panic::set_hook(Box::new(move |info| {
    let msg = if let Some(s) = info.payload().downcast_ref::<&str>() { s.to_string() } else if let Some(s) = info.payload().downcast_ref::<String>() { s.clone() } else { String::new() };
    if msg.starts_with("PV-FUZZ-VIOLATION") {
      eprintln!("{}", msg);
      std::process::abort();
    }
    LAST_PANIC.with(|p| *p.borrow_mut() = Some(msg));
  }));
}

pub fn take_last_panic() -> Option<String> { LAST_PANIC.with(|p| p.borrow_mut().take()) }

pub fn panic_message(payload: &(dyn std::any::Any + Send)) -> String {
  if let Some(s) = payload.downcast_ref::<&str>() { s.to_string() } else if let Some(s) = payload.downcast_ref::<String>() { s.clone() } else { "<non-string panic>".to_string() }
}

/// Runs a check; a panic that escapes the check itself (i.e. a harness bug or an unexpected panic of the code under
/// test outside of an engine-guarded region) is reported as a failure with the panic text.
pub fn guarded(f: impl FnOnce() -> CheckResult) -> CheckResult {
  match std::panic::catch_unwind(std::panic::AssertUnwindSafe(f)) {
    Ok(r) => r,
    Err(p) => {
      let loc = take_last_panic().unwrap_or_default();
      Err(Failure::new(format!("unexpected panic outside guarded build: {} [{}]", panic_message(p.as_ref()), loc)))
    }
  }
}

/// Everything a property run reports.
pub struct Report {
  pub prop: String,
  pub tier: Tier,
  pub seed: u64,
  pub level: &'static str,
  pub rule: String,
  pub stats: Stats,
  pub assumptions: Vec<String>,
  pub exhaustive: Option<bool>,
  pub violations: Vec<(String, String)>,
  pub known_lines: Vec<String>,
  pub replays_run: u64,
  pub start: Instant,
  pub extra: BTreeMap<String, Value>,
}

impl Report {
  pub fn new(prop: &str, tier: Tier, seed: u64, level: &'static str, rule: &str) -> Self {
    Self {
      prop: prop.to_string(), tier, seed, level, rule: rule.to_string(), stats: Stats::new(), assumptions: vec![], exhaustive: None,
      violations: vec![], known_lines: vec![], replays_run: 0, start: Instant::now(), extra: BTreeMap::new(),
    }
  }

  /// Writes a replay file for a violation and records it.
  pub fn violation(&mut self, label: &str, case: &Value, failure: &Failure, pretty: &str) {
    let dir = verif_root().join("evidence").join("replays");
    let _ = std::fs::create_dir_all(&dir);
    let fp = fingerprint(&format!("{}{}", case, failure.msg));
    let path = dir.join(format!("{}-{}-{:016x}.json", self.prop, label, fp));
    let doc = json!({
      "property": self.prop,
      "label": label,
      "seed": self.seed,
      "failure": failure.msg,
      "signature": failure.sig,
      "pretty": pretty,
      "case": case,
    });
    let _ = std::fs::write(&path, serde_json::to_string_pretty(&doc).unwrap());
    self.violations.push((path.display().to_string(), failure.msg.clone()));
  }

  pub fn absorb(&mut self, label: &str, stats: Stats, found: Option<Found>) {
    self.stats.merge(stats);
    if let Some(f) = found {
      self.violation(label, &f.case, &f.failure, &f.pretty);
    }
  }

  /// Prints result lines, writes evidence, returns the exit code.
  pub fn finish(self) -> i32 {
    let wall = self.start.elapsed().as_secs_f64();
    for l in &self.known_lines { println!("{}", l); }
    for (path, msg) in &self.violations {
      println!("VIOLATION property={} replay={}", self.prop, path);
      println!("  reason: {}", msg.lines().next().unwrap_or(""));
    }
    let mut coverage = serde_json::Map::new();
    coverage.insert("evaluations".into(), json!(self.stats.evaluations));
    coverage.insert("distinct_nontrivial".into(), json!(self.stats.nontrivial.len()));
    coverage.insert("rule".into(), json!(self.rule));
    coverage.insert("samples".into(), json!(self.stats.samples));
    coverage.insert("classes".into(), json!(self.stats.classes));
    coverage.insert("excluded_known_findings".into(), json!(self.stats.excluded));
    coverage.insert("replays_run".into(), json!(self.replays_run));
    for (k, v) in &self.stats.extra { coverage.insert(k.clone(), json!(v)); }
    for (k, v) in &self.extra { coverage.insert(k.clone(), v.clone()); }
    if let Some(e) = self.exhaustive { coverage.insert("exhaustive".into(), json!(e)); }
    let doc = json!({
      "property_id": self.prop,
      "tier": self.tier.name(),
      "seed": self.seed,
      "level": self.level,
      "coverage": Value::Object(coverage),
      "assumptions": self.assumptions,
      "wall_s": wall,
      "violations": self.violations.len(),
    });
    let dir = verif_root().join("evidence");
    let _ = std::fs::create_dir_all(&dir);
    let path = dir.join(format!("{}.json", self.prop));
    if let Err(e) = std::fs::write(&path, serde_json::to_string_pretty(&doc).unwrap()) {
      eprintln!("cannot write evidence {}: {}", path.display(), e);
      return 2;
    }
    println!("{} {}: evaluations={} distinct_nontrivial={} violations={} known={} wall={:.1}s",
      self.prop, self.tier.name(), self.stats.evaluations, self.stats.nontrivial.len(), self.violations.len(), self.known_lines.len(), wall);
    if !self.violations.is_empty() { 1 } else { 0 }
  }
}

/// Loads the `case` of a replay file.
pub fn load_replay<T: DeserializeOwned>(path: &Path) -> Result<(String, String, T), String> {
  let text = std::fs::read_to_string(path).map_err(|e| format!("{}: {}", path.display(), e))?;
  let v: Value = serde_json::from_str(&text).map_err(|e| format!("{}: {}", path.display(), e))?;
  let prop = v.get("property").and_then(|x| x.as_str()).unwrap_or("").to_string();
  let label = v.get("label").and_then(|x| x.as_str()).unwrap_or("").to_string();
  let case = v.get("case").cloned().ok_or_else(|| "no case".to_string())?;
  let t: T = serde_json::from_value(case).map_err(|e| format!("{}: bad case: {}", path.display(), e))?;
  Ok((prop, label, t))
}

pub fn replay_label(path: &Path) -> Option<(String, String)> {
  let text = std::fs::read_to_string(path).ok()?;
  let v: Value = serde_json::from_str(&text).ok()?;
  Some((v.get("property")?.as_str()?.to_string(), v.get("label")?.as_str()?.to_string()))
}

/// Lists `*.json` under `<root>/<sub>/` sorted by name.
pub fn list_json(sub: &str) -> Vec<PathBuf> {
  let dir = verif_root().join(sub);
  let mut v: Vec<PathBuf> = std::fs::read_dir(&dir).map(|rd| rd.filter_map(|e| e.ok()).map(|e| e.path()).filter(|p| p.extension().map(|x| x == "json").unwrap_or(false)).collect()).unwrap_or_default();
  v.sort();
  v
}

/// Monotone index mapping (shrinks towards earlier choices).
#[inline]
pub fn pick(sel: u16, len: usize) -> usize {
  if len == 0 { 0 } else { ((sel as usize) * len) >> 16 }
}
