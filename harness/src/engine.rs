//! Runs a `Case` against a real `Pie` instance with every build guarded by `catch_unwind`, and collects observations.

use std::collections::{BTreeMap, BTreeSet};
use std::panic::{catch_unwind, AssertUnwindSafe};
use std::rc::Rc;

use pie::tracker::event::EventTracker;
use pie::tracker::{CompositeTracker, Tracker};
use pie::verif::VerifNode;
use pie::{Pie, ResourceState};

use crate::driver::panic_message;
use crate::interp::{self, Rec, Tk, VRes, VState, L};
use crate::lang::*;

#[derive(Clone, Debug, PartialEq, Eq)]
pub enum BuildKind {
  TopDown(TaskId),
  /// Scheduling + `update_affected_tasks` of a bottom-up build.
  BottomUp(Vec<ResId>),
  /// `Session::require` after a bottom-up build in the same session.
  Then(TaskId),
  Probe(TaskId),
}

#[derive(Clone, Debug, PartialEq, Eq)]
pub enum BuildResult {
  Out(Out),
  Unit,
  Panic(String),
}

#[derive(Clone, Debug)]
pub struct BuildRec {
  pub kind: BuildKind,
  pub result: BuildResult,
  /// Range of the unified log written during this build.
  pub log: std::ops::Range<usize>,
  /// `Session::dependency_check_errors()` after this build (cumulative over the session).
  pub dep_errors: Vec<String>,
  pub state_after: BTreeMap<ResId, Val>,
  /// Number of task-side operation points passed during this build.
  pub ops: u32,
  /// Whether a panic injection was armed for this build.
  pub armed: u32,
}

#[derive(Clone, Debug)]
pub struct SessionRec {
  /// Index of the step in the (possibly oracle-extended) history.
  pub step: usize,
  pub probe: bool,
  pub state_before: BTreeMap<ResId, Val>,
  pub faults: BTreeSet<(ResId, RChk)>,
  pub builds: Vec<BuildRec>,
  pub dump_after: Vec<VerifNode>,
  /// External changes (resources) made since the previous session.
  pub changed_before: Vec<ResId>,
}

#[derive(Clone, Debug, Default)]
pub struct Run {
  pub sessions: Vec<SessionRec>,
  pub log: Vec<L>,
  pub streams: BTreeMap<u8, Vec<interp::Ev>>,
  /// Slices of pie's own `EventTracker` taken after each session (only with `Opts::composite`).
  pub event_tracker_debug: Vec<Vec<String>>,
}

#[derive(Clone, Debug, Default)]
pub struct Opts {
  /// Use `CompositeTracker<Rec, CompositeTracker<Rec, EventTracker>>` (C17) instead of a plain `Rec`.
  pub composite: bool,
  pub dump: bool,
}

pub trait PieLike {
  fn state_mut(&mut self) -> &mut VState;
  fn session<R>(&mut self, f: impl FnOnce(&mut pie::Session) -> R) -> R;
  fn dump(&self) -> Vec<VerifNode>;
  fn event_debug(&self) -> Option<Vec<String>>;
}

impl<A: Tracker + EvDebug> PieLike for Pie<A> {
  fn state_mut(&mut self) -> &mut VState { let st = self.resource_state_mut::<VRes>().get_or_set_default_mut::<VState>(); interp::apply_pending(st); st }
  fn session<R>(&mut self, f: impl FnOnce(&mut pie::Session) -> R) -> R {
    let mut s = self.new_session();
    f(&mut s)
  }
  fn dump(&self) -> Vec<VerifNode> { self.verif_dump() }
  fn event_debug(&self) -> Option<Vec<String>> { self.tracker().event_debug() }
}

pub trait EvDebug {
  fn event_debug(&self) -> Option<Vec<String>>;
}
impl EvDebug for Rec {
  fn event_debug(&self) -> Option<Vec<String>> { None }
}
pub type Composite = CompositeTracker<Rec, CompositeTracker<Rec, EventTracker>>;
impl EvDebug for Composite {
  fn event_debug(&self) -> Option<Vec<String>> { Some(self.1.1.slice().iter().map(|e| format!("{:?}", e)).collect()) }
}

pub fn run_case(case: &Case, opts: &Opts) -> Run {
  if opts.composite {
    let tracker = CompositeTracker(Rec { stream: 0 }, CompositeTracker(Rec { stream: 1 }, EventTracker::default()));
    run_on(Pie::with_tracker(tracker), case, opts)
  } else {
    run_on(Pie::with_tracker(Rec { stream: 0 }), case, opts)
  }
}

fn guarded<R>(f: impl FnOnce() -> R) -> Result<R, String> {
  match catch_unwind(AssertUnwindSafe(f)) {
    Ok(r) => Ok(r),
    Err(p) => {
      interp::clear_stack();
      interp::log(L::Aborted);
      Err(panic_message(p.as_ref()))
    }
  }
}

pub fn run_on<P: PieLike>(mut pie: P, case: &Case, opts: &Opts) -> Run {
  interp::install(Rc::new(case.prog.clone()));
  {
    let st = pie.state_mut();
    st.map = case.prog.init.clone();
  }
  let mut run = Run::default();
  let mut changed: Vec<ResId> = vec![];
  let mut arm: u32 = 0;
  for (step_idx, step) in case.hist.steps.iter().enumerate() {
    match step {
      Step::Change { res, val } => {
        let st = pie.state_mut();
        match val {
          Some(v) => { st.map.insert(*res, *v % 4); }
          None => { st.map.remove(res); }
        }
        if !changed.contains(res) { changed.push(*res); }
      }
      Step::SetFaults { faults } => {
        interp::with_cx(|c| c.faults = faults.iter().cloned().collect());
      }
      Step::ArmPanic { after } => { arm = *after; }
      Step::Session { .. } | Step::Probe { .. } => {
        let state_before = pie.state_mut().map.clone();
        let faults = interp::with_cx(|c| c.faults.clone());
        let mut builds: Vec<BuildRec> = vec![];
        let probe = matches!(step, Step::Probe { .. });
        let plan: Vec<Build> = match step {
          Step::Session { builds } => builds.clone(),
          Step::Probe { roots } => roots.iter().map(|t| Build::TopDown(*t)).collect(),
          _ => unreachable!(),
        };
        // A raw pointer dance is avoided: the session closure records builds into a local vector, reading the resource
        // state through the log-independent snapshot taken after the session ends is not possible per build, so the
        // per-build state is reconstructed from the writer log below.
        let arm_now = std::mem::take(&mut arm);
        let mut first_build = true;
        // External changes made while the session is open: logged at the start of the next build's range.
        let mut queued: Vec<(ResId, Option<Val>)> = vec![];
        let mut tail_changes: Vec<(ResId, Option<Val>)> = vec![];
        pie.session(|s| {
          for b in &plan {
            let flush = |queued: &mut Vec<(ResId, Option<Val>)>| {
              for (r, val) in queued.drain(..) { interp::log(L::ExtChange { r, val }); interp::with_cx(|c| c.pending_ext.push((r, val))); }
            };
            match b {
              Build::Change { res, val } => { queued.push((*res, *val)); }
              Build::TopDown(t) => {
                let armed = if first_build { arm_now } else { 0 };
                first_build = false;
                let start = interp::log_len();
                flush(&mut queued);
                interp::with_cx(|c| { c.countdown = armed; c.ops = 0; });
                let r = guarded(|| s.require(&Tk(*t)));
                let ops = interp::with_cx(|c| { c.countdown = 0; c.ops });
                let end = interp::log_len();
                let dep_errors = s.dependency_check_errors().map(|e| e.to_string()).collect();
                builds.push(BuildRec {
                  kind: if probe { BuildKind::Probe(*t) } else { BuildKind::TopDown(*t) },
                  result: match r { Ok(o) => BuildResult::Out(o), Err(m) => BuildResult::Panic(m) },
                  log: start..end, dep_errors, state_after: BTreeMap::new(), ops, armed,
                });
              }
              Build::BottomUp { report, then } => {
                let armed = if first_build { arm_now } else { 0 };
                first_build = false;
                let start = interp::log_len();
                flush(&mut queued);
                interp::with_cx(|c| { c.countdown = armed; c.ops = 0; });
                let r = guarded(|| {
                  let mut bu = s.create_bottom_up_build();
                  for r in report { bu.schedule_tasks_affected_by(&VRes(*r)); }
                  bu.update_affected_tasks();
                });
                let ops = interp::with_cx(|c| { c.countdown = 0; c.ops });
                let end = interp::log_len();
                let dep_errors = s.dependency_check_errors().map(|e| e.to_string()).collect();
                builds.push(BuildRec {
                  kind: BuildKind::BottomUp(report.clone()),
                  result: match r { Ok(()) => BuildResult::Unit, Err(m) => BuildResult::Panic(m) },
                  log: start..end, dep_errors, state_after: BTreeMap::new(), ops, armed,
                });
                for t in then {
                  let start = interp::log_len();
                  interp::with_cx(|c| { c.ops = 0; });
                  let r = guarded(|| s.require(&Tk(*t)));
                  let ops = interp::with_cx(|c| c.ops);
                  let end = interp::log_len();
                  let dep_errors = s.dependency_check_errors().map(|e| e.to_string()).collect();
                  builds.push(BuildRec {
                    kind: BuildKind::Then(*t),
                    result: match r { Ok(o) => BuildResult::Out(o), Err(m) => BuildResult::Panic(m) },
                    log: start..end, dep_errors, state_after: BTreeMap::new(), ops, armed: 0,
                  });
                }
              }
            }
          }
          tail_changes = std::mem::take(&mut queued);
        });
        // Changes after the last build of the session are ordinary between-session changes.
        for (r, val) in tail_changes {
          let st = pie.state_mut();
          match val { Some(v) => { st.map.insert(r, v % 4); } None => { st.map.remove(&r); } }
          if !changed.contains(&r) { changed.push(r); }
        }
        // Reconstruct the resource state after each build from the writer log (RSet entries are the only mutations).
        let mut st = state_before.clone();
        interp::with_cx(|c| {
          for b in builds.iter_mut() {
            for l in &c.log[b.log.clone()] {
              if let L::RSet { r, val, .. } = l {
                match val { Some(v) => { st.insert(*r, *v); } None => { st.remove(r); } }
              }
              if let L::ExtChange { r, val } = l {
                match val { Some(v) => { st.insert(*r, *v % 4); } None => { st.remove(r); } }
              }
            }
            b.state_after = st.clone();
          }
        });
        // Cross-check the reconstruction against the real state.
        let real = pie.state_mut().map.clone();
        if real != st {
          // Should be impossible; surface loudly as a harness inconsistency in the last build.
          if let Some(b) = builds.last_mut() { b.state_after = real; }
        }
        let dump_after = if opts.dump { pie.dump() } else { vec![] };
        if let Some(d) = pie.event_debug() { run.event_tracker_debug.push(d); }
        run.sessions.push(SessionRec { step: step_idx, probe, state_before, faults, builds, dump_after, changed_before: std::mem::take(&mut changed) });
      }
    }
  }
  let cx = interp::uninstall().expect("context");
  run.log = cx.log;
  run.streams = cx.streams;
  run
}
