//! Shared analysis of a run: walks all sessions with the trace acceptor (O5), the from-scratch evaluator (O1) and the
//! shadow record (O3), and produces tagged findings that the individual properties select from.

use std::collections::{BTreeMap, BTreeSet};

use crate::accept::{Acceptor, Facts};
use crate::engine::{BuildKind, BuildResult, Run};
use crate::interp::{Ev, INJECTED_PANIC, TASK_PANIC, L};
use crate::lang::*;
use crate::model::{consistent_o, consistent_r, Dep, DepTarget, Eval, Shadow, Violation};

#[derive(Clone, Debug, PartialEq, Eq)]
pub enum PanicKind { Injected, TaskPanic, Cycle, HiddenRead, HiddenWrite, Overlap, Internal }

pub fn panic_kind(msg: &str) -> PanicKind {
  if msg.contains(INJECTED_PANIC) { PanicKind::Injected }
  else if msg.contains(TASK_PANIC) { PanicKind::TaskPanic }
  else if msg.starts_with("Cyclic task dependency") { PanicKind::Cycle }
  else if msg.starts_with("Overlapping write") { PanicKind::Overlap }
  else if msg.starts_with("Hidden dependency") && msg.contains("is read by") { PanicKind::HiddenRead }
  else if msg.starts_with("Hidden dependency") { PanicKind::HiddenWrite }
  else { PanicKind::Internal }
}

#[derive(Clone, Debug)]
pub struct BuildInfo {
  pub session: usize,
  pub build: usize,
  pub kind: BuildKind,
  pub facts: Facts,
  pub executed: Vec<TaskId>,
  /// (executed task, target of the inconsistent dependency, whether a dependency of the task executed inside its frame)
  pub panic: Option<PanicKind>,
  /// Known tasks (ever entered) at the start of the build.
  pub known_before: BTreeSet<TaskId>,
  pub completed_before: BTreeSet<TaskId>,
}

#[derive(Clone, Debug)]
pub struct Tagged {
  pub session: usize,
  pub build: usize,
  pub tag: &'static str,
  pub msg: String,
}

#[derive(Clone, Debug, Default)]
pub struct Analysis {
  pub findings: Vec<Tagged>,
  pub builds: Vec<BuildInfo>,
  /// Stale (task, dependency target) pairs at the start of each bottom-up build, by session index (C03-F1 signature).
  pub stale_before_bu: BTreeMap<usize, Vec<(TaskId, DepTarget)>>,
  /// Tasks executed during the bottom-up build of a session.
  pub bu_executed: BTreeMap<usize, BTreeSet<TaskId>>,
  /// The same per bottom-up build: (session, build index, executed tasks).
  pub bu_exec_builds: Vec<(usize, usize, BTreeSet<TaskId>)>,
  /// Root causes of executions in judged builds: (session, build, task, target).
  pub root_causes: Vec<(usize, usize, TaskId, Option<DepTarget>)>,
  /// Whether the analysis stopped early because a build aborted.
  pub stopped_at_abort: bool,
}

impl Analysis {
  pub fn has(&self, tags: &[&str]) -> Option<&Tagged> { self.findings.iter().find(|f| tags.contains(&f.tag)) }
}

/// Determines the root causes of the executions in `log[range]` of a top-down build: executed tasks whose validation
/// did not see any other task execute first inside their own frame. Uses tracker events only.
fn root_causes(log: &[L], range: std::ops::Range<usize>) -> Vec<(TaskId, Option<DepTarget>)> {
  // Walk events; keep a stack of frames (require_start / check_task_start of task t). Each frame remembers whether an
  // execution happened inside it and the last inconsistent check target at depth 0.
  struct Frame { t: TaskId, inner_exec: bool, last_bad: Option<DepTarget> }
  let mut stack: Vec<Frame> = vec![];
  let mut out = vec![];
  // Tasks executed / resources written so far in this build: an execution explained by them is not a root cause.
  let mut executed: BTreeSet<TaskId> = BTreeSet::new();
  let mut written: BTreeSet<ResId> = BTreeSet::new();
  for l in &log[range] {
    if let L::RSet { r, .. } = l { written.insert(*r); }
    let L::E(ev) = l else { continue; };
    match ev {
      Ev::RequireStart { t, .. } | Ev::CheckTaskStart { t, .. } => stack.push(Frame { t: *t, inner_exec: false, last_bad: None }),
      Ev::RequireEnd { .. } => { stack.pop(); }
      Ev::CheckTaskEnd { t, inconsistent, .. } => {
        let inner = stack.pop().map(|f| f.inner_exec).unwrap_or(false);
        if let Some(parent) = stack.last_mut() {
          if inner { parent.inner_exec = true; }
          if *inconsistent { parent.last_bad = Some(DepTarget::Task(*t)); }
        }
      }
      Ev::CheckResEnd { r, verdict, .. } => {
        if *verdict != crate::interp::Verdict::Consistent { if let Some(f) = stack.last_mut() { f.last_bad = Some(DepTarget::Res(*r)); } }
      }
      Ev::ExecStart { t } => {
        if let Some(f) = stack.last_mut() {
          if f.t == *t {
            let explained = match f.last_bad { Some(DepTarget::Task(x)) => executed.contains(&x), Some(DepTarget::Res(r)) => written.contains(&r), None => false };
            if !f.inner_exec && !explained { out.push((*t, f.last_bad)); }
            f.inner_exec = true;
          }
        }
        executed.insert(*t);
        // Mark all enclosing frames.
        for f in stack.iter_mut() { f.inner_exec = true; }
      }
      _ => {}
    }
  }
  out
}

pub fn analyze(case: &Case, run: &Run) -> Analysis {
  let prog = &case.prog;
  let mut an = Analysis::default();
  let mut shadow = Shadow::default();
  'sessions: for (si, sess) in run.sessions.iter().enumerate() {
    let mut acc = Acceptor::new(prog, &run.log, shadow.clone(), sess);
    let mut model = Eval::new(prog, sess.state_before.clone());
    for (bi, b) in sess.builds.iter().enumerate() {
      let known_before = acc.shadow.known.clone();
      let completed_before = acc.shadow.completed.clone();
      let findings_before = acc.findings.len();
      let facts_before = std::mem::take(&mut acc.facts);
      let _ = facts_before;
      let panic = match &b.result { BuildResult::Panic(m) => Some(panic_kind(m)), _ => None };
      match &b.kind {
        BuildKind::TopDown(t) | BuildKind::Then(t) | BuildKind::Probe(t) => {
          acc.top_down_build(*t, b.log.clone(), &b.result);
          for (task, target) in root_causes(&run.log, b.log.clone()) { an.root_causes.push((si, bi, task, target)); }
          // O1: from-scratch comparison.
          match (&b.result, model.require_root(*t)) {
            (BuildResult::Out(o), Ok(e)) => {
              let unreached: Vec<TaskId> = acc.facts.executed.iter().cloned().filter(|x| !model.done.contains_key(x)).collect();
              if !unreached.is_empty() {
                an.findings.push(Tagged { session: si, build: bi, tag: "I5-unreached-exec", msg: format!("session {} require(T{}) executed {:?} which a from-scratch build of the current state does not reach", si, t, unreached) });
              }
              if *o != e {
                an.findings.push(Tagged { session: si, build: bi, tag: "c01-output", msg: format!("session {} require(T{}) returned {:?}, a from-scratch build of the current state returns {:?}", si, t, o, e) });
              }
              if b.state_after != model.state {
                an.findings.push(Tagged { session: si, build: bi, tag: "c01-state", msg: format!("session {} after require(T{}): resources {:?}, from-scratch build leaves {:?}", si, t, b.state_after, model.state) });
              }
            }
            (BuildResult::Out(o), Err(())) if matches!(model.violation, Some(Violation::TaskPanic { .. })) => {
              an.findings.push(Tagged { session: si, build: bi, tag: "missed-task-panic", msg: format!("session {} require(T{}) returned {:?} but in a from-scratch build of the current state {:?}", si, t, o, model.violation) });
            }
            (BuildResult::Out(o), Err(())) => {
              an.findings.push(Tagged { session: si, build: bi, tag: "missed-violation", msg: format!("session {} require(T{}) returned {:?} but a from-scratch build of the current state aborts with {:?}", si, t, o, model.violation) });
            }
            (BuildResult::Panic(_), _) => {}
            (BuildResult::Unit, _) => {}
          }
        }
        BuildKind::BottomUp(report) => {
          // C03-F1 signature: tasks already inconsistent on something no reported resource explains.
          let mut stale = vec![];
          for (t, e) in acc.shadow.last.iter() {
            if !e.complete { continue; }
            for d in e.deps() {
              match d {
                Dep::Require { dst, chk, out } => {
                  if let Some(now) = acc.shadow.last.get(&dst).and_then(|x| x.out) {
                    if !consistent_o(chk, &out, &now) { stale.push((*t, DepTarget::Task(dst))); }
                  }
                }
                Dep::Read { r, chk, seen, .. } => {
                  if !report.contains(&r) && !consistent_r(chk, seen, acc.state.get(&r).copied()) { stale.push((*t, DepTarget::Res(r))); }
                }
                Dep::Write { r, chk, val, .. } => {
                  if !report.contains(&r) && !consistent_r(chk, val, acc.state.get(&r).copied()) { stale.push((*t, DepTarget::Res(r))); }
                }
              }
            }
          }
          // With several bottom-up builds in one session the first one defines what was stale beforehand.
          an.stale_before_bu.entry(si).or_insert(stale);
          acc.bottom_up_build(report, b.log.clone(), &b.result);
          an.bu_executed.entry(si).or_default().extend(acc.facts.executed.iter().cloned());
          an.bu_exec_builds.push((si, bi, acc.facts.executed.iter().cloned().collect()));
          // Later requires in this session are judged against the state the bottom-up build left.
          model = Eval::new(prog, b.state_after.clone());
        }
      }
      for f in acc.findings[findings_before..].iter() {
        an.findings.push(Tagged { session: si, build: bi, tag: f.tag, msg: format!("session {} build {} ({:?}): {}", si, bi, b.kind, f.msg) });
      }
      let mut facts = acc.facts.clone();
      if let BuildKind::BottomUp(report) = &b.kind { facts.bu_over_report = report.iter().any(|r| !sess.changed_before.contains(r)); }
      an.builds.push(BuildInfo { session: si, build: bi, kind: b.kind.clone(), executed: facts.executed.clone(), facts, panic: panic.clone(), known_before, completed_before });
      if let Some(k) = &panic {
        an.findings.push(Tagged { session: si, build: bi, tag: match k {
          PanicKind::Injected | PanicKind::TaskPanic => "panic-injected",
          PanicKind::Internal => "panic-internal",
          _ => "panic-diagnosed",
        }, msg: format!("session {} build {} ({:?}) aborted: {}", si, bi, b.kind, match &b.result { BuildResult::Panic(m) => m.as_str(), _ => "" }) });
        // After an abort the acceptor's shadow is still in sync (drained), but the model of this session is not
        // meaningful any more; later sessions start from the real state again.
        an.stopped_at_abort = true;
        let _ = Violation::Cycle { from: 0, to: 0 };
        for rest in sess.builds[bi + 1..].iter() { acc.skip(rest.log.clone()); }
        shadow = acc.shadow.clone();
        continue 'sessions;
      }
    }
    shadow = acc.shadow;
  }
  an
}
