//! O1: from-scratch evaluator. O3: shadow dependency record from the task-side log. O4: verdict functions.

use std::collections::{BTreeMap, BTreeSet};

use crate::interp::L;
use crate::lang::*;

// ---------------------------------------------------------------------------------------------------------------------
// O4 verdicts

pub fn consistent_r(chk: RChk, then: Option<Val>, now: Option<Val>) -> bool { rel_r(chk, stamp_r(chk, then), stamp_r(chk, now)) }
pub fn consistent_o(chk: OChk, then: &Out, now: &Out) -> bool { rel_o(chk, stamp_o(chk, then), stamp_o(chk, now)) }

// ---------------------------------------------------------------------------------------------------------------------
// O1 from-scratch evaluator

#[derive(Clone, Debug, PartialEq, Eq)]
pub enum Dep {
  Require { dst: TaskId, chk: OChk, out: Out },
  Read { r: ResId, chk: RChk, faulty: bool, seen: Option<Val> },
  Write { r: ResId, chk: RChk, faulty: bool, val: Option<Val>, via: Via },
}

impl Dep {
  pub fn target(&self) -> DepTarget {
    match self {
      Dep::Require { dst, .. } => DepTarget::Task(*dst),
      Dep::Read { r, .. } | Dep::Write { r, .. } => DepTarget::Res(*r),
    }
  }
}

#[derive(Clone, Copy, Debug, PartialEq, Eq, PartialOrd, Ord, Hash)]
pub enum DepTarget { Task(TaskId), Res(ResId) }

#[derive(Clone, Debug, PartialEq, Eq)]
pub struct Exec {
  pub deps: Vec<Dep>,
  pub out: Out,
}

#[derive(Clone, Debug, PartialEq, Eq)]
pub enum Violation {
  Cycle { from: TaskId, to: TaskId },
  Overlap { r: ResId, first: TaskId, second: TaskId },
  HiddenRead { r: ResId, reader: TaskId, writer: TaskId },
  HiddenWrite { r: ResId, writer: TaskId, reader: TaskId },
  /// Not a diagnosed violation: the task itself panics in this state.
  TaskPanic { t: TaskId },
}

impl Violation {
  pub fn kind(&self) -> &'static str {
    match self {
      Violation::Cycle { .. } => "cycle",
      Violation::Overlap { .. } => "overlap",
      Violation::HiddenRead { .. } => "hidden-read",
      Violation::HiddenWrite { .. } => "hidden-write",
      Violation::TaskPanic { .. } => "task-panic",
    }
  }
}

pub struct Eval<'p> {
  pub prog: &'p Program,
  pub state: BTreeMap<ResId, Val>,
  pub done: BTreeMap<TaskId, Exec>,
  pub order: Vec<TaskId>,
  stack: Vec<(TaskId, Vec<Dep>)>,
  pub violation: Option<Violation>,
  writer_of: BTreeMap<ResId, TaskId>,
  readers_of: BTreeMap<ResId, Vec<TaskId>>,
}

impl<'p> Eval<'p> {
  pub fn new(prog: &'p Program, state: BTreeMap<ResId, Val>) -> Self {
    Self { prog, state, done: BTreeMap::new(), order: vec![], stack: vec![], violation: None, writer_of: BTreeMap::new(), readers_of: BTreeMap::new() }
  }

  /// Requires `t` as a root. `Err(())` means the from-scratch build aborts with `self.violation`.
  pub fn require_root(&mut self, t: TaskId) -> Result<Out, ()> {
    if self.violation.is_some() { return Err(()); }
    self.require(t)
  }

  fn reaches(&self, from: TaskId, to: TaskId) -> bool {
    let mut seen = BTreeSet::new();
    let mut stack = vec![from];
    while let Some(n) = stack.pop() {
      if !seen.insert(n) { continue; }
      let deps: Option<&Vec<Dep>> = self.stack.iter().find(|(t, _)| *t == n).map(|(_, d)| d).or_else(|| self.done.get(&n).map(|e| &e.deps));
      if let Some(deps) = deps {
        for d in deps {
          if let Dep::Require { dst, .. } = d {
            if *dst == to { return true; }
            stack.push(*dst);
          }
        }
      }
    }
    false
  }

  fn require(&mut self, t: TaskId) -> Result<Out, ()> {
    if let Some(e) = self.done.get(&t) { return Ok(e.out); }
    if self.stack.iter().any(|(s, _)| *s == t) {
      let from = self.stack.last().map(|x| x.0).unwrap_or(t);
      self.violation = Some(Violation::Cycle { from, to: t });
      return Err(());
    }
    self.stack.push((t, vec![]));
    let mut env = [0u8; NVARS];
    let script = self.prog.tasks.get(t as usize).cloned().unwrap_or_default();
    self.block(t, &script.body, &mut env)?;
    let out = num_out(script.out.as_ref().map(|e| e.eval(&env)).unwrap_or(0));
    let (_, deps) = self.stack.pop().expect("stack");
    self.done.insert(t, Exec { deps, out });
    self.order.push(t);
    Ok(out)
  }

  fn push_dep(&mut self, d: Dep) { self.stack.last_mut().expect("executing").1.push(d); }

  fn block(&mut self, me: TaskId, block: &[Stmt], env: &mut [u8; NVARS]) -> Result<(), ()> {
    for s in block {
      match s {
        Stmt::Read { res, chk, faulty, var } => {
          let r = res.resolve(env);
          if let Some(w) = self.writer_of.get(&r).copied() {
            if w == me || !self.reaches(me, w) {
              self.violation = Some(Violation::HiddenRead { r, reader: me, writer: w });
              return Err(());
            }
          }
          let seen = self.state.get(&r).copied();
          self.push_dep(Dep::Read { r, chk: *chk, faulty: *faulty, seen });
          let rs = self.readers_of.entry(r).or_default();
          if !rs.contains(&me) { rs.push(me); }
          env[(*var as usize) % NVARS] = observe_r(*chk, seen);
        }
        Stmt::Require { task, chk, var } => {
          let dst = task.resolve(env);
          // The reserved edge exists while the required task runs.
          self.push_dep(Dep::Require { dst, chk: *chk, out: Ok(0) });
          let idx = self.stack.last().unwrap().1.len() - 1;
          let out = self.require(dst)?;
          if let Dep::Require { out: o, .. } = &mut self.stack.last_mut().unwrap().1[idx] { *o = out; }
          env[(*var as usize) % NVARS] = observe_o(*chk, &out);
        }
        Stmt::Write { res, chk, faulty, val, via } => {
          let r = res.resolve(env);
          let v = crate::interp::wval(val.eval(env));
          if let Some(w) = self.writer_of.get(&r).copied() {
            self.violation = Some(Violation::Overlap { r, first: w, second: me });
            return Err(());
          }
          if let Some(readers) = self.readers_of.get(&r).cloned() {
            for reader in readers {
              if reader == me || !self.reaches(reader, me) {
                self.violation = Some(Violation::HiddenWrite { r, writer: me, reader });
                return Err(());
              }
            }
          }
          match v { Some(x) => { self.state.insert(r, x); } None => { self.state.remove(&r); } }
          self.writer_of.insert(r, me);
          self.push_dep(Dep::Write { r, chk: *chk, faulty: *faulty, val: v, via: *via });
        }
        Stmt::If { cond, then, els } => {
          if cond.eval(env) != 0 { self.block(me, then, env)?; } else { self.block(me, els, env)?; }
        }
        Stmt::PanicIf { cond } => {
          if cond.eval(env) != 0 { self.violation = Some(Violation::TaskPanic { t: me }); return Err(()); }
        }
      }
    }
    Ok(())
  }
}

// ---------------------------------------------------------------------------------------------------------------------
// O3 shadow dependency record

/// What the task-side log says a task's last execution did.
#[derive(Clone, Debug, Default, PartialEq, Eq)]
pub struct ShadowExec {
  /// All dependency-creating operations in order (duplicates included).
  pub ops: Vec<Dep>,
  pub out: Option<Out>,
  /// Completed normally (TExit seen).
  pub complete: bool,
  /// A require that was called but has not returned (reserved edge), while executing.
  pub pending_require: Option<(TaskId, OChk)>,
}

impl ShadowExec {
  /// De-duplicated by target, first occurrence (the order in which the dependencies were created).
  pub fn deps(&self) -> Vec<Dep> {
    let mut seen = BTreeSet::new();
    let mut v = vec![];
    for d in &self.ops {
      if seen.insert(d.target()) { v.push(d.clone()); }
    }
    v
  }
  pub fn requires(&self) -> Vec<TaskId> {
    let mut v: Vec<TaskId> = self.ops.iter().filter_map(|d| if let Dep::Require { dst, .. } = d { Some(*dst) } else { None }).collect();
    if let Some((t, _)) = self.pending_require { v.push(t); }
    v
  }
  /// Two operations of this execution on one target with different checkers (C08-F1/F2 class).
  pub fn multi_checker_targets(&self) -> Vec<DepTarget> {
    let mut first: BTreeMap<DepTarget, String> = BTreeMap::new();
    let mut out = vec![];
    for d in &self.ops {
      let c = match d {
        Dep::Require { chk, .. } => format!("{:?}", chk),
        Dep::Read { chk, faulty, .. } | Dep::Write { chk, faulty, .. } => format!("{:?}{}", chk, faulty),
      };
      match first.get(&d.target()) {
        None => { first.insert(d.target(), c); }
        Some(c0) => { if *c0 != c && !out.contains(&d.target()) { out.push(d.target()); } }
      }
    }
    out
  }
}

#[derive(Clone, Debug, Default)]
pub struct Shadow {
  pub last: BTreeMap<TaskId, ShadowExec>,
  /// Tasks currently executing (innermost last).
  pub stack: Vec<TaskId>,
  /// Every task ever entered.
  pub known: BTreeSet<TaskId>,
  /// Every task that ever completed an execution.
  pub completed: BTreeSet<TaskId>,
  pending_read: BTreeMap<TaskId, (RChk, bool)>,
  pending_write: BTreeMap<TaskId, (RChk, bool, Via, Option<Option<Val>>)>,
}

impl Shadow {
  pub fn feed(&mut self, l: &L) {
    match l {
      L::TEnter(t) => {
        self.known.insert(*t);
        self.last.insert(*t, ShadowExec::default());
        self.stack.push(*t);
      }
      L::TExit(t, out) => {
        if let Some(e) = self.last.get_mut(t) { e.out = Some(*out); e.complete = true; }
        self.completed.insert(*t);
        if self.stack.last() == Some(t) { self.stack.pop(); }
      }
      L::TRequireCall { t, dst, chk } => {
        if let Some(e) = self.last.get_mut(t) { e.pending_require = Some((*dst, *chk)); }
      }
      L::TRequireRet { t, dst, out } => {
        if let Some(e) = self.last.get_mut(t) {
          let chk = e.pending_require.take().map(|x| x.1).unwrap_or(OChk::Equals);
          e.ops.push(Dep::Require { dst: *dst, chk, out: *out });
        }
      }
      L::TReadCall { t, chk, faulty, .. } => { self.pending_read.insert(*t, (*chk, *faulty)); }
      L::TReadRet { t, r, seen, .. } => {
        let (chk, faulty) = self.pending_read.remove(t).unwrap_or((RChk::Exact, false));
        if let Some(e) = self.last.get_mut(t) { e.ops.push(Dep::Read { r: *r, chk, faulty, seen: *seen }); }
      }
      L::TWriteCall { t, chk, faulty, via, .. } => { self.pending_write.insert(*t, (*chk, *faulty, *via, None)); }
      L::TWriteFn { t, val, .. } => { if let Some(p) = self.pending_write.get_mut(t) { p.3 = Some(*val); } }
      L::TWriteRet { t, r } => {
        if let Some((chk, faulty, via, val)) = self.pending_write.remove(t) {
          if let Some(e) = self.last.get_mut(t) { e.ops.push(Dep::Write { r: *r, chk, faulty, val: val.unwrap_or(None), via }); }
        }
      }
      L::Aborted => {
        // Every task still on the stack was cut by a panic: its execution never completed.
        for t in self.stack.drain(..) {
          if let Some(e) = self.last.get_mut(&t) { e.complete = false; e.out = None; }
        }
      }
      _ => {}
    }
  }
}

/// Builds the shadow record of a log prefix.
pub fn shadow_of(log: &[L]) -> Shadow {
  let mut sh = Shadow::default();
  for l in log { sh.feed(l); }
  sh
}

impl Shadow {
  /// Recorded writer(s) of `r`: tasks whose last completed (or in-progress) execution wrote it.
  pub fn writers_of(&self, r: ResId) -> Vec<TaskId> {
    self.last.iter().filter(|(_, e)| e.ops.iter().any(|d| matches!(d, Dep::Write { r: x, .. } if *x == r))).map(|(t, _)| *t).collect()
  }
  pub fn readers_of(&self, r: ResId) -> Vec<TaskId> {
    self.last.iter().filter(|(_, e)| e.ops.iter().any(|d| matches!(d, Dep::Read { r: x, .. } if *x == r))).map(|(t, _)| *t).collect()
  }
  /// Reachability over recorded require edges (including pending "reserved" requires of executing tasks).
  pub fn reaches(&self, from: TaskId, to: TaskId) -> bool {
    let mut seen = BTreeSet::new();
    let mut stack = vec![from];
    while let Some(n) = stack.pop() {
      if !seen.insert(n) { continue; }
      if let Some(e) = self.last.get(&n) {
        for d in e.requires() {
          if d == to { return true; }
          stack.push(d);
        }
      }
    }
    false
  }
}
