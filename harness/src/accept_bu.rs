// Bottom-up half of the acceptor (included into accept.rs).

impl<'a> Acceptor<'a> {
  /// Accepts the scheduling phase and `update_affected_tasks` of one bottom-up build.
  pub fn bottom_up_build(&mut self, report: &[ResId], range: std::ops::Range<usize>, result: &BuildResult) {
    self.pos = range.start;
    self.end = range.end;
    self.aborted = false;
    self.in_bottom_up = true;
    self.executed_in_build.clear();
    let panicked = matches!(result, BuildResult::Panic(_));
    for r in report {
      if !self.sched_frame_res(*r, true) { self.drain(); self.in_bottom_up = false; return; }
    }
    if self.expect("build_start", |e| matches!(e, Ev::BuildStart)).is_none() { self.drain(); self.in_bottom_up = false; return; }
    loop {
      let Some(ev) = self.peek() else { break; };
      match ev {
        Ev::ExecStart { t } => {
          if !self.queue.contains(&t) {
            self.fail("bu-unscheduled-exec", format!("T{} is executed by the bottom-up build but no inconsistent dependency scheduled it (queue {:?})", t, self.queue));
          }
          self.check_pop_order(t);
          if !self.execute_and_schedule(t) { break; }
        }
        Ev::BuildEnd => {
          self.next();
          if !self.queue.is_empty() {
            self.fail("bu-leftover", format!("build ended while {:?} are still scheduled", self.queue));
          }
          break;
        }
        other => {
          if !self.aborted { self.fail("shape", format!("unexpected {:?} at the top level of a bottom-up build", other)); }
          break;
        }
      }
    }
    if let Some(ev) = self.peek() { if !panicked { self.fail("shape", format!("events after build_end: {:?}", ev)); } }
    self.drain();
    self.in_bottom_up = false;
  }

  /// A scheduled task must not start before another scheduled task that it (transitively) requires.
  fn check_pop_order(&mut self, t: TaskId) {
    let others: Vec<TaskId> = self.queue.iter().cloned().filter(|x| *x != t).collect();
    for o in others {
      if self.shadow.reaches(t, o) {
        self.fail("bu-order", format!("scheduled T{} starts executing before scheduled T{} which it (transitively) requires", t, o));
      }
    }
  }

  fn execute_and_schedule(&mut self, d: TaskId) -> bool {
    if self.executed_in_build.contains(&d) {
      self.fail("I1-double-exec", format!("T{} is executed a second time in this bottom-up build", d));
    }
    let had_output = self.shadow.last.get(&d).map(|e| e.complete).unwrap_or(false);
    if had_output { self.facts.re_executed.push(d); } else { self.facts.first_executed.push(d); }
    self.queue.remove(&d);
    if !self.execution(d) { return false; }
    let written: Vec<ResId> = self.shadow.last.get(&d).map(|e| e.deps().iter().filter_map(|x| if let Dep::Write { r, .. } = x { Some(*r) } else { None }).collect()).unwrap_or_default();
    for r in written {
      if !self.sched_frame_res(r, false) { return false; }
    }
    if !self.sched_frame_task(d) { return false; }
    self.validated.insert(d);
    true
  }

  /// `schedule_affected_by_resource_start(r)` ... checks ... `schedule_affected_by_resource_end(r)`.
  fn sched_frame_res(&mut self, r: ResId, include_writers: bool) -> bool {
    if self.expect("schedule_affected_by_resource_start", |e| matches!(e, Ev::SchedByResStart { r: x } if *x == r)).is_none() { return false; }
    let mut expected: BTreeSet<TaskId> = self.shadow.readers_of(r).into_iter().collect();
    if include_writers { expected.extend(self.shadow.writers_of(r)); }
    let mut seen: BTreeSet<TaskId> = BTreeSet::new();
    loop {
      let Some(ev) = self.next() else { return false; };
      match ev {
        Ev::SchedByResEnd { r: x } if x == r => break,
        Ev::CheckReadStart { t, chk, stamp } => {
          seen.insert(t);
          let dep = self.shadow.last.get(&t).and_then(|e| e.deps().into_iter().find(|d| match d { Dep::Read { r: x, .. } => *x == r, Dep::Write { r: x, .. } => *x == r && include_writers, _ => false }));
          let expected_verdict = match &dep {
            Some(Dep::Read { chk: c, faulty, seen: then, .. }) | Some(Dep::Write { chk: c, faulty, val: then, .. }) => {
              if chk != rchk_text(*c, *faulty) || stamp != rstamp_text(*c, *then) {
                self.fail("stamp", format!("bottom-up check of T{} on r{} uses checker/stamp {}/{} but the dependency was created with {}/{}", t, r, chk, stamp, rchk_text(*c, *faulty), rstamp_text(*c, *then)));
              }
              Some((self.expected_res_verdict(r, *c, *faulty, *then), *then))
            }
            _ => {
              self.fail("bu-extra-check", format!("bottom-up build checks a dependency of T{} on r{} that its last execution did not create", t, r));
              None
            }
          };
          let Some(Ev::CheckReadEnd { verdict, .. }) = self.expect("check_task_read_resource_end", |e| matches!(e, Ev::CheckReadEnd { t: x, .. } if *x == t)) else { return false; };
          self.facts.checks += 1;
          if let Some((ev, then)) = expected_verdict {
            if ev != verdict {
              self.fail("bu-verdict", format!("T{} on r{} stamped from {:?}, value now {:?}: pie reports {:?} but the checker's relation says {:?}", t, r, then, self.state.get(&r), verdict, ev));
            }
            if verdict == Verdict::Consistent && then != self.state.get(&r).copied() { self.facts.coarse_ignored_change = true; }
          }
          let sched_next = matches!(self.peek(), Some(Ev::Schedule { t: x }) if x == t);
          match verdict {
            Verdict::Consistent => {
              self.facts.bu_cutoff = true;
              if sched_next { self.fail("bu-unjustified-schedule", format!("T{} is scheduled although its dependency on r{} was reported consistent", t, r)); self.next(); self.queue.insert(t); }
            }
            _ => {
              if verdict == Verdict::Error { self.facts.error_checks += 1; } else { self.facts.inconsistent_checks += 1; }
              if sched_next {
                self.next();
                self.schedule(t);
              } else {
                self.fail("bu-missing-schedule", format!("T{}'s dependency on r{} was reported {:?} but the task is not scheduled", t, r, verdict));
              }
            }
          }
        }
        other => {
          if !self.aborted { self.fail("shape", format!("unexpected {:?} while scheduling tasks affected by r{}", other, r)); }
          return false;
        }
      }
    }
    if seen != expected {
      let missed: Vec<_> = expected.difference(&seen).collect();
      let extra: Vec<_> = seen.difference(&expected).collect();
      if !missed.is_empty() { self.fail("bu-missed-check", format!("tasks {:?} have a recorded dependency on r{} that the bottom-up build did not check", missed, r)); }
      if !extra.is_empty() { self.fail("bu-extra-check", format!("tasks {:?} were checked against r{} without a recorded dependency on it", extra, r)); }
    }
    true
  }

  fn schedule(&mut self, t: TaskId) {
    self.queue.insert(t);
    if !self.facts.scheduled.contains(&t) { self.facts.scheduled.push(t); }
    self.facts.max_queue = self.facts.max_queue.max(self.queue.len());
  }

  /// `schedule_affected_by_task_start(d)` ... checks of requirers ... `schedule_affected_by_task_end(d)`.
  fn sched_frame_task(&mut self, d: TaskId) -> bool {
    if self.expect("schedule_affected_by_task_start", |e| matches!(e, Ev::SchedByTaskStart { t: x } if *x == d)).is_none() { return false; }
    let now = self.shadow.last.get(&d).and_then(|e| e.out);
    let expected: BTreeSet<TaskId> = self.shadow.last.iter().filter(|(_, e)| e.ops.iter().any(|x| matches!(x, Dep::Require { dst, .. } if *dst == d))).map(|(t, _)| *t).collect();
    let mut seen = BTreeSet::new();
    loop {
      let Some(ev) = self.next() else { return false; };
      match ev {
        Ev::SchedByTaskEnd { t: x } if x == d => break,
        Ev::CheckReqStart { t, chk, stamp } => {
          seen.insert(t);
          let dep = self.shadow.last.get(&t).and_then(|e| e.deps().into_iter().find(|x| matches!(x, Dep::Require { dst, .. } if *dst == d)));
          let expected_inc = match (&dep, now) {
            (Some(Dep::Require { chk: c, out, .. }), Some(n)) => {
              if chk != ochk_text(*c) || stamp != ostamp_text(*c, out) {
                self.fail("stamp", format!("bottom-up check of T{}'s require of T{} uses checker/stamp {}/{} but the dependency was created with {}/{}", t, d, chk, stamp, ochk_text(*c), ostamp_text(*c, out)));
              }
              Some(!consistent_o(*c, out, &n))
            }
            _ => None,
          };
          let Some(Ev::CheckReqEnd { inconsistent, .. }) = self.expect("check_task_require_task_end", |e| matches!(e, Ev::CheckReqEnd { t: x, .. } if *x == t)) else { return false; };
          self.facts.checks += 1;
          if let Some(e) = expected_inc {
            if e != inconsistent { self.fail("bu-verdict", format!("T{} requires T{} ({:?}): pie reports inconsistent={} but the checker's relation says {}", t, d, dep, inconsistent, e)); }
          }
          let sched_next = matches!(self.peek(), Some(Ev::Schedule { t: x }) if x == t);
          if inconsistent {
            self.facts.inconsistent_checks += 1;
            if sched_next { self.next(); self.schedule(t); } else { self.fail("bu-missing-schedule", format!("T{}'s require of T{} was reported inconsistent but the task is not scheduled", t, d)); }
          } else {
            self.facts.bu_cutoff = true;
            if sched_next { self.fail("bu-unjustified-schedule", format!("T{} is scheduled although its require of T{} was reported consistent", t, d)); self.next(); self.queue.insert(t); }
          }
        }
        other => {
          if !self.aborted { self.fail("shape", format!("unexpected {:?} while scheduling tasks affected by T{}", other, d)); }
          return false;
        }
      }
    }
    if seen != expected {
      let missed: Vec<_> = expected.difference(&seen).collect();
      let extra: Vec<_> = seen.difference(&expected).collect();
      if !missed.is_empty() { self.fail("bu-missed-check", format!("tasks {:?} have a recorded require of T{} that the bottom-up build did not check", missed, d)); }
      if !extra.is_empty() { self.fail("bu-extra-check", format!("tasks {:?} were checked against the output of T{} without a recorded require of it", extra, d)); }
    }
    true
  }

  /// `BottomUpContext::make_task_consistent(u)` reached through a `require` inside an executing task.
  fn bu_make_consistent(&mut self, u: TaskId) -> bool {
    if self.validated.contains(&u) { return true; }
    let has_output = self.shadow.last.get(&u).map(|e| e.complete).unwrap_or(false);
    if !has_output {
      // Required for the first time: executed directly.
      self.facts.bu_first_required = true;
      if !matches!(self.peek(), Some(Ev::ExecStart { t }) if t == u) {
        if self.aborted { return false; }
        self.fail("missing-exec", format!("T{} has never completed but is not executed when required during a bottom-up build", u));
        return false;
      }
      if self.executed_in_build.contains(&u) { self.fail("I1-double-exec", format!("T{} is executed a second time in this bottom-up build", u)); }
      self.facts.first_executed.push(u);
      if !self.execution(u) { return false; }
      self.validated.insert(u);
      return true;
    }
    // Drain scheduled tasks that u depends on, then u itself if scheduled.
    loop {
      let Some(ev) = self.peek() else { return false; };
      match ev {
        Ev::ExecStart { t: d } => {
          if !self.queue.contains(&d) {
            self.fail("bu-unscheduled-exec", format!("T{} is executed while T{} is required, but no inconsistent dependency scheduled it (queue {:?})", d, u, self.queue));
          } else if !(d == u || self.shadow.reaches(u, d)) {
            self.fail("bu-unrelated-drain", format!("T{} is executed while T{} is required although T{} does not depend on it", d, u, u));
          }
          self.check_pop_order(d);
          self.facts.bu_nested_drain = true;
          if !self.execute_and_schedule(d) { return false; }
          if d == u { break; }
        }
        _ => break,
      }
    }
    // Not executed: then nothing u depends on may still be scheduled, nor u itself.
    if !self.executed_in_build.contains(&u) {
      let pending: Vec<TaskId> = self.queue.iter().cloned().filter(|d| *d == u || self.shadow.reaches(u, *d)).collect();
      if !pending.is_empty() {
        self.fail("bu-undrained", format!("require of T{} returned its cached output while {:?}, which it depends on, are still scheduled", u, pending));
      }
    }
    self.validated.insert(u);
    true
  }
}
