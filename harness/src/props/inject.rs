//! C05 (hidden dependencies), C06 (overlapping writes), C07 (cycles): well-formed programs with one injected violation.
//! The oracles work on the task-side log and the shadow record only: they say at which task-side moment pie must
//! already have aborted, and what the abort must look like.

use proptest::strategy::Strategy;
use serde_json::json;

use crate::analyze::{panic_kind, Analysis, PanicKind};
use crate::driver::{fingerprint, CheckResult, Failure, Stats, Tier};
use crate::engine::{BuildResult, Opts, Run};
use crate::gen::{self, GenCfg, InjectKind};
use crate::interp::L;
use crate::lang::*;
use crate::model::{Dep, Shadow};

use super::build::{bu_cfg, identity, sample, Spec};

fn inj_cfg(t: Tier) -> GenCfg {
  let mut c = bu_cfg(t);
  c.bottom_up_weight = 3;
  c.max_steps = match t { Tier::Quick => 8, Tier::Thorough => 12 };
  c.task_panic_share = 2;
  // Detection must not depend on sessions being short-lived: long sessions with changes while they are open included.
  c.mid_session_changes = true;
  c
}

/// For each build: (session index, build index, log range, panic message if any).
fn builds(run: &Run) -> Vec<(usize, usize, std::ops::Range<usize>, Option<String>)> {
  let mut v = vec![];
  for (si, s) in run.sessions.iter().enumerate() {
    for (bi, b) in s.builds.iter().enumerate() {
      let p = match &b.result { BuildResult::Panic(m) => Some(m.clone()), _ => None };
      v.push((si, bi, b.log.clone(), p));
    }
  }
  v
}

fn has_write(sh: &Shadow, t: TaskId, r: ResId) -> bool {
  sh.last.get(&t).map(|e| e.ops.iter().any(|d| matches!(d, Dep::Write { r: x, .. } if *x == r))).unwrap_or(false)
}
fn has_read(sh: &Shadow, t: TaskId, r: ResId) -> bool {
  sh.last.get(&t).map(|e| e.ops.iter().any(|d| matches!(d, Dep::Read { r: x, .. } if *x == r))).unwrap_or(false)
}

// ---------------------------------------------------------------------------------------------------------------------
// C05

fn c05_strategy(cfg: GenCfg) -> proptest::strategy::BoxedStrategy<Case> { gen::injected_case_strategy(cfg, InjectKind::Hidden, 1).boxed() }

fn c05_judge(case: &Case, run: &Run, _an: &Analysis, stats: &mut Stats) -> CheckResult {
  let Some(Inject::Hidden { g, writer, reader }) = case.inject.clone() else {
    // Negative half: a well-formed program never reports a hidden dependency - as long as no build has aborted before
    // (after an aborted task execution spurious reports are possible: recorded finding C19-F1, judged by the C19 check).
    for (si, bi, _, p) in builds(run) {
      if let Some(m) = p {
        if matches!(panic_kind(&m), PanicKind::HiddenRead | PanicKind::HiddenWrite) { return Err(Failure::new(format!("[c05-spurious] session {} build {}: well-formed program aborted: {}", si, bi, m))); }
        stats.class("negative_half_stopped_at_task_failure");
        break;
      }
    }
    return Ok(());
  };
  let mut sh = Shadow::default();
  let mut read_attempted = false;
  let mut write_attempted = false;
  let mut detected_read_side = false;
  let mut detected_write_side = false;
  let mut sessions_with_reader: Vec<usize> = vec![];
  let mut sessions_with_writer: Vec<usize> = vec![];
  let mut abort_seen = false;
  for (si, bi, range, panic) in builds(run) {
    // Last task-side call before an abort, with the demand that held at that moment.
    let mut pending_demand: Option<(&'static str, String)> = None;
    let sh_before = sh.clone();
    let mut entered: Vec<TaskId> = vec![];
    for i in range.clone() {
      let l = &run.log[i];
      match l {
        L::TEnter(t) => { if !entered.contains(t) { entered.push(*t); } }
        L::TReadCall { t, r, .. } if *r == g => {
          if *t == reader { read_attempted = true; if !sessions_with_reader.contains(&si) { sessions_with_reader.push(si); } }
          // Demand: a different task has a recorded write of g and t does not reach it.
          let ws: Vec<TaskId> = sh.last.keys().cloned().filter(|w| *w != *t && has_write(&sh, *w, g)).collect();
          pending_demand = ws.iter().find(|w| !sh.reaches(*t, **w)).map(|w| ("read", format!("T{} reads r{} whose recorded writer T{} it does not (transitively) require", t, g, w)));
        }
        L::TReadRet { t, r, .. } if *r == g => {
          if let Some((_, why)) = pending_demand.take() {
            return Err(Failure::new(format!("[c05-read-returned] session {} build {}: Context::read returned to T{} although {}", si, bi, t, why)));
          }
        }
        L::TWriteCall { t, r, .. } if *r == g => {
          if *t == writer { write_attempted = true; if !sessions_with_writer.contains(&si) { sessions_with_writer.push(si); } }
          let other_writer = sh.last.keys().cloned().any(|w| w != *t && has_write(&sh, w, g));
          let rs: Vec<TaskId> = sh.last.keys().cloned().filter(|x| *x != *t && has_read(&sh, *x, g)).collect();
          pending_demand = if other_writer { None } else { rs.iter().find(|x| !sh.reaches(**x, *t)).map(|x| ("write", format!("T{} writes r{} which T{} has read without (transitively) requiring T{}", t, g, x, t))) };
        }
        L::TWriteFn { t, r, .. } if *r == g => {
          // For a write through the context the write function must not run (resource unmodified).
          if let Some(("write", why)) = pending_demand.clone() {
            let via_ctx = run.log[range.start..i].iter().rev().find_map(|x| if let L::TWriteCall { t: tt, r: rr, via, .. } = x { if tt == t && rr == r { Some(*via) } else { None } } else { None }) == Some(Via::Ctx);
            if via_ctx {
              return Err(Failure::new(format!("[c05-modified-before-abort] session {} build {}: the write function of T{} ran (resource modified) although {}", si, bi, t, why)));
            }
          }
        }
        L::TWriteRet { t, r } if *r == g => {
          if let Some((_, why)) = pending_demand.take() {
            return Err(Failure::new(format!("[c05-write-returned] session {} build {}: the write of T{} completed although {}", si, bi, t, why)));
          }
        }
        L::Aborted => {
          if let Some((side, why)) = pending_demand.take() {
            let kind = panic.as_deref().map(panic_kind);
            let ok = match side { "read" => kind == Some(PanicKind::HiddenRead), _ => kind == Some(PanicKind::HiddenWrite) };
            if !ok {
              return Err(Failure::new(format!("[c05-wrong-abort] session {} build {}: {} - expected a hidden-dependency error but the build aborted with: {:?}", si, bi, why, panic)));
            }
            if side == "read" { detected_read_side = true; } else { detected_write_side = true; }
          }
        }
        _ => {}
      }
      sh.feed(l);
    }
    // (d) a build that returned leaves every recorded reader of g dependent on its recorded writer. Only asserted
    // while no build has aborted: an aborted task loses its recorded requires while tasks that reached the writer
    // through it keep their (older) read edges, which no listed property speaks about.
    if panic.is_some() { abort_seen = true; }
    if panic.is_none() && !abort_seen {
      for w in sh.last.keys().cloned().filter(|w| has_write(&sh, *w, g)).collect::<Vec<_>>() {
        for x in sh.last.keys().cloned().filter(|x| *x != w && has_read(&sh, *x, g)).collect::<Vec<_>>() {
          if !sh.reaches(x, w) {
            let msg = format!("[c05-returned-with-hidden-dependency] session {} build {} returned, but T{} has read r{} written by T{} without (transitively) requiring it", si, bi, x, g, w);
            // Known finding C05-F1: neither the reader nor the writer ran in this build; the recorded path between them
            // existed before the build and was cut because an intermediate task re-executed and dropped a require.
            // Every read/write of g in this build passed the access-time demands above (they are checked in log order
            // and fail first), so the path existed whenever either side ran, or - if neither ran - before the build.
            if sh_before.reaches(x, w) || entered.contains(&x) || entered.contains(&w) {
              stats.class("c05_f1_path_cut_by_intermediate");
              return Err(Failure::with_sig(msg, "C05-F1/path-cut-by-reexecuted-intermediate"));
            }
            return Err(Failure::new(msg));
          }
        }
      }
    }
  }
  if read_attempted && write_attempted {
    stats.class("both_sides_attempted");
    let split = sessions_with_reader.iter().any(|s| !sessions_with_writer.contains(s)) || sessions_with_writer.iter().any(|s| !sessions_with_reader.contains(s));
    if split { stats.class("reader_and_writer_in_different_sessions"); }
    if detected_read_side { stats.class("detected_on_read_side"); }
    if detected_write_side { stats.class("detected_on_write_side"); }
    if detected_read_side || detected_write_side { stats.nontrivial(fingerprint(case)); sample(case, stats); }
  }
  Ok(())
}

pub const C05: Spec = Spec {
  prop: "C05",
  level: "exploration",
  rule: "well-formed generated programs with one injected unconditional read of a generated resource g (whose writer writes it unconditionally) in a task that does not require the writer, at any task and position, x histories with top-down and bottom-up sessions in any order and session split (10% stay un-injected: must never report a hidden dependency). Oracle on the task-side log + shadow record: Context::read must not return while a different task has a recorded write of g that the reader does not reach; the write function must not run and the write must not complete while a recorded reader does not reach the writer; the abort raised at such a moment must be a hidden-dependency error; after every returning build every recorded reader of g reaches its recorded writer. Non-trivial = both the injected read and the write were attempted on one instance and a demand was raised; distinct by case hash",
  cfg: inj_cfg,
  transform: identity,
  judge: c05_judge,
  opts: Opts::default,
  quick: (16, 15000),
  thorough: (16, 250000),
  extra: None,
  strategy: Some(c05_strategy),
  assumptions: &["the injected read and the writer's write are unconditional, so recorded and real accesses of g coincide in every state"],
};

// ---------------------------------------------------------------------------------------------------------------------
// C06

fn c06_strategy(cfg: GenCfg) -> proptest::strategy::BoxedStrategy<Case> { gen::injected_case_strategy(cfg, InjectKind::Overlap, 3).boxed() }

fn c06_judge(case: &Case, run: &Run, an: &Analysis, stats: &mut Stats) -> CheckResult {
  let Some(Inject::Overlap { g, w1, w2 }) = case.inject.clone() else {
    // Negative half: re-execution of the same writer, however reached, is never an overlap.
    let mut rewrites = 0;
    for b in &an.builds { rewrites += b.facts.re_executed.iter().filter(|t| case.prog.writers.contains(t)).count(); }
    if rewrites >= 2 { stats.class("negative_half_writer_reexecuted>=2"); stats.nontrivial(fingerprint(case)); }
    for (si, bi, _, p) in builds(run) {
      if let Some(m) = p { if panic_kind(&m) == PanicKind::Overlap { return Err(Failure::new(format!("[c06-spurious] session {} build {}: program with a single writer per resource aborted: {}", si, bi, m))); } }
    }
    return Ok(());
  };
  let mut sh = Shadow::default();
  let mut attempted: Vec<TaskId> = vec![];
  let mut detected = false;
  for (si, bi, range, panic) in builds(run) {
    let mut pending: Option<(TaskId, TaskId, Via)> = None;
    for i in range.clone() {
      let l = &run.log[i];
      match l {
        L::TWriteCall { t, r, via, .. } if *r == g => {
          if !attempted.contains(t) { attempted.push(*t); }
          pending = sh.last.keys().cloned().find(|w| *w != *t && has_write(&sh, *w, g)).map(|w| (*t, w, *via));
        }
        L::TWriteFn { t, r, .. } if *r == g => {
          if let Some((pt, w, Via::Ctx)) = pending { if pt == *t {
            return Err(Failure::new(format!("[c06-modified-before-abort] session {} build {}: the write function of T{} ran on r{} whose recorded writer is T{}", si, bi, t, g, w)));
          } }
        }
        L::TWriteRet { t, r } if *r == g => {
          if let Some((pt, w, _)) = pending.take() { if pt == *t {
            return Err(Failure::new(format!("[c06-write-returned] session {} build {}: T{} wrote / declared having written r{} whose recorded writer is T{}, and the call returned", si, bi, t, g, w)));
          } }
        }
        L::Aborted => {
          if let Some((t, w, _)) = pending.take() {
            if panic.as_deref().map(panic_kind) != Some(PanicKind::Overlap) {
              return Err(Failure::new(format!("[c06-wrong-abort] session {} build {}: T{} writes r{} whose recorded writer is T{}; expected an overlapping-write error, got {:?}", si, bi, t, g, w, panic)));
            }
            detected = true;
          }
        }
        _ => {}
      }
      sh.feed(l);
    }
    if panic.is_none() {
      for r in 0..case.prog.n_res {
        let ws: Vec<TaskId> = sh.last.iter().filter(|(_, e)| e.complete).map(|(t, _)| *t).filter(|t| has_write(&sh, *t, r)).collect();
        if ws.len() > 1 { return Err(Failure::new(format!("[c06-two-writers] session {} build {} returned with r{} written by {:?}", si, bi, r, ws))); }
      }
    }
  }
  if attempted.contains(&w1) && attempted.contains(&w2) {
    stats.class("both_writers_attempted");
    if detected { stats.class("overlap_detected"); stats.nontrivial(fingerprint(case)); sample(case, stats); }
  }
  Ok(())
}

/// Negative half, continued: programs with a single writer per resource whose builds are aborted (task failures, injected
/// panics) and then rebuilt top-down *and bottom-up*: re-execution of a writer whose previous execution was aborted is
/// still re-execution of the same writer - never an overlap.
fn c06_after_aborts(case: &Case, stats: &mut Stats) -> CheckResult {
  let run = crate::engine::run_case(case, &Opts::default());
  let mut seen_abort = false;
  let mut rewrite_after_abort = false;
  let mut aborted_writers: Vec<TaskId> = vec![];
  let mut sh = Shadow::default();
  for (si, bi, range, p) in builds(&run) {
    for l in &run.log[range.clone()] {
      if let L::TWriteCall { t, .. } = l { if aborted_writers.contains(t) { rewrite_after_abort = true; } }
      if let L::Aborted = l { for t in sh.stack.iter() { if sh.last.get(t).map(|e| e.ops.iter().any(|d| matches!(d, Dep::Write { .. }))).unwrap_or(false) && !aborted_writers.contains(t) { aborted_writers.push(*t); } } }
      sh.feed(l);
    }
    if let Some(m) = p {
      if panic_kind(&m) == PanicKind::Overlap {
        return Err(Failure::new(format!("[c06-spurious] session {} build {} ({}an earlier abort): program with a single writer per resource aborted: {}", si, bi, if seen_abort { "after " } else { "no " }, m)));
      }
      seen_abort = true;
    }
  }
  if seen_abort { stats.class("negative_half_case_with_abort"); }
  if rewrite_after_abort { stats.class("writer_aborted_after_writing_then_writes_again"); stats.nontrivial(fingerprint(case)); sample(case, stats); }
  Ok(())
}

fn c06_extra(_spec: &Spec, tier: Tier, seed: u64, known: &crate::driver::Known, report: &mut crate::driver::Report) {
  let (shards, cases) = match tier { Tier::Quick => (16, 8000), Tier::Thorough => (16, 120000) };
  let acfg = super::roles::after_aborts_cfg(tier);
  let scfg = crate::driver::SearchCfg { prop: "C06", label: "after-aborts", seed, shards, cases_per_shard: cases, max_shrink_iters: 3000 };
  let (stats, found) = crate::driver::search(&scfg, known, || gen::case_strategy(acfg.clone()).boxed(), |c, s| c06_after_aborts(c, s), |c| pretty_case(c));
  report.absorb("after-aborts", stats, found);
}

pub fn replay_c06_after_aborts(case: &Case) -> CheckResult { crate::driver::guarded(|| c06_after_aborts(case, &mut Stats::dummy())) }

pub const C06: Spec = Spec {
  prop: "C06",
  level: "exploration",
  rule: "well-formed generated programs with a second, unconditional writer of one generated resource injected at any task and position (through Context::write or create_writer+written_to), x histories in any order, session split and build mode; 30% stay un-injected (negative half: writers re-executed repeatedly must never be reported as overlapping). Oracle on the task-side log + shadow record: when a task writes g while a different task has a recorded write of g, the write function must not run (context write), the call must not return, and the abort must be an overlapping-write error; after every returning build every resource has at most one recorded writer. A further search (label after-aborts) runs single-writer programs whose builds are aborted by task failures and injected panics and are then rebuilt top-down and bottom-up: an aborted writer writing again is never an overlap. Non-trivial = both writers attempted on one instance and the overlap was demanded (positive), or writers re-executed >=2 times / a writer aborted after writing writes again (negative); distinct by case hash",
  cfg: inj_cfg,
  transform: identity,
  judge: c06_judge,
  opts: Opts::default,
  quick: (16, 15000),
  thorough: (16, 250000),
  extra: Some(c06_extra),
  strategy: Some(c06_strategy),
  assumptions: &["both writes of the injected resource are unconditional, so a recorded writer is a real writer in every state"],
};

// ---------------------------------------------------------------------------------------------------------------------
// C07

fn c07_cfg(t: Tier) -> GenCfg { let mut c = inj_cfg(t); c.mid_session_changes = true; c }

fn c07_strategy(cfg: GenCfg) -> proptest::strategy::BoxedStrategy<Case> { gen::injected_case_strategy(cfg, InjectKind::Cycle, 1).boxed() }

fn c07_judge(case: &Case, run: &Run, _an: &Analysis, stats: &mut Stats) -> CheckResult {
  let mut executed_before = 0usize;
  let mut nontrivial = false;
  for (si, bi, range, panic) in builds(run) {
    let mut stack: Vec<TaskId> = vec![];
    let mut cyclic_call: Option<(TaskId, TaskId, usize)> = None;
    let mut entered: Vec<TaskId> = vec![];
    for i in range.clone() {
      let l = &run.log[i];
      if let Some((t, dst, len)) = cyclic_call {
        // After a require of a task that is still executing, nothing may happen on the task side but the abort.
        match l {
          L::Aborted => {
            if panic.as_deref().map(panic_kind) != Some(PanicKind::Cycle) {
              return Err(Failure::new(format!("[c07-wrong-abort] session {} build {}: T{} requires T{} which is still executing; expected a cyclic-dependency error, got {:?}", si, bi, t, dst, panic)));
            }
            stats.class("cycle_detected");
            if len >= 2 { stats.class("cycle_length>=2"); if executed_before >= 3 { nontrivial = true; } }
            cyclic_call = None;
            stack.clear();
            continue;
          }
          L::TEnter(x) => return Err(Failure::new(format!("[c07-executed-on-cycle] session {} build {}: T{} requires T{} which is still executing, yet T{} started executing", si, bi, t, dst, x))),
          L::TRequireRet { t: rt, dst: rd, out } if *rt == t && *rd == dst => return Err(Failure::new(format!("[c07-returned-value] session {} build {}: require of T{} by T{} returned {:?} although T{} is still executing", si, bi, dst, t, out, dst))),
          L::TRecursed(x) => return Err(Failure::new(format!("[c07-recursed] session {} build {}: T{} entered while still executing", si, bi, x))),
          _ => {}
        }
        continue;
      }
      match l {
        L::TEnter(t) => {
          // (At-most-once execution in general is C02/C04's subject; after an aborted build a bottom-up build may
          // legitimately re-run an aborted task, see DESIGN §8.3. Re-entry while executing is caught by TRecursed.)
          if !entered.contains(t) { entered.push(*t); }
          stack.push(*t);
        }
        L::TExit(..) => { stack.pop(); }
        L::TRecursed(x) => return Err(Failure::new(format!("[c07-recursed] session {} build {}: T{} entered while still executing", si, bi, x))),
        L::TRequireCall { t, dst, .. } => {
          if let Some(pos) = stack.iter().position(|x| x == dst) {
            cyclic_call = Some((*t, *dst, stack.len() - pos));
          }
        }
        L::Aborted => { stack.clear(); }
        _ => {}
      }
    }
    if let Some((t, dst, _)) = cyclic_call {
      return Err(Failure::new(format!("[c07-no-abort] session {} build {}: T{} requires T{} which is still executing, but the build did not abort ({:?})", si, bi, t, dst, panic)));
    }
    executed_before += entered.len();
  }
  if nontrivial { stats.nontrivial(fingerprint(case)); sample(case, stats); }
  Ok(())
}

pub const C07: Spec = Spec {
  prop: "C07",
  level: "exploration",
  rule: "well-formed generated programs with one injected back-require closing a cycle of any length over the static may-require relation (self loops included), optionally guarded by a condition on a source value so that the cycle exists only in some states or appears in a later session; x histories (top-down and bottom-up, including long sessions in which resources change while the session stays open and are reported to a bottom-up build of that session) preceded by arbitrary earlier sessions. Oracle on the task-side log: when a task requires a task that is on the execution stack, no task may start executing and the require may not return before the build aborts, and the abort must be a cyclic-dependency error; no task is entered while it is executing (depth sentinel) nor twice in one build. Non-trivial = cycle of length >=2 detected after earlier sessions executed >=3 tasks; distinct by case hash",
  cfg: c07_cfg,
  transform: identity,
  judge: c07_judge,
  opts: Opts::default,
  quick: (16, 15000),
  thorough: (16, 250000),
  extra: None,
  strategy: Some(c07_strategy),
  assumptions: &["the interpreter's own execution stack is ground truth for 'still executing'"],
};

#[allow(dead_code)]
fn _unused() { let _ = json!(0); }
