//! C10 (acyclic, gap-free topological order) and C11 (queries agree with the true edge set).

use std::path::Path;

use serde_json::json;

use crate::dag::{self, DagCase, DagFacts, Tag};
use crate::driver::{self, CheckResult, Failure, Known, Report, SearchCfg, Stats, Tier};

fn tag_of(prop: &str) -> Tag { if prop == "C10" { Tag::C10 } else { Tag::C11 } }

pub fn check(case: &DagCase, which: Tag, stats: &mut Stats) -> CheckResult {
  let mut facts = DagFacts::default();
  let fails = dag::run_case(case, true, &mut facts);
  dag::record(case, &facts, stats, which);
  stats.sample(|| json!(dag::pretty(case)));
  match fails.into_iter().find(|(t, _)| *t == which) {
    Some((_, msg)) => Err(Failure::new(msg)),
    None => Ok(()),
  }
}

pub fn replay(prop: &str, _label: &str, path: &Path) -> Result<CheckResult, String> {
  let (_, _, case): (_, _, DagCase) = driver::load_replay(path)?;
  Ok(check(&case, tag_of(prop), &mut Stats::dummy()))
}

pub fn run(prop: &str, tier: Tier, seed: u64) -> i32 {
  let which = tag_of(prop);
  let rule = match which {
    Tag::C10 => "proptest-generated op sequences (add_node/add_edge/re-add/remove_edge/remove_outgoing/remove_node incl. removed nodes and self edges) vs naive reference graph, all assertions after every op; plus long histories (500-1500 ops in the quick tier, up to 4000 in the thorough tier) of insertions and removals on graphs of <=8 nodes, so that state which only builds up over hundreds of reordering insertions is reached; non-trivial = sequence with an accepted back-insertion that changed the rank of >=3 nodes, or a rejected cycle of length >=3 after a removal; distinct by case hash",
    Tag::C11 => "same sequences, which also contain generated single queries (any kind, any pair, or a repetition of a recent query) compared on the spot; the sweep of all pair/adjacency/descendant/topo_cmp queries runs after every op, or - in half of the cases - only after every k-th op / at the end, so that single queries meet whatever earlier queries and mutators left behind; plus exhaustive enumeration of mutator/reachability-query interleavings; non-trivial = re-insertion of an existing edge that is not last in an adjacency list of >=2, or a removal that leaves the source with other edges; distinct by case hash",
  };
  let mut report = Report::new(prop, tier, seed, "exploration", rule);
  let known = Known::load(prop);
  super::prologue(&mut report, &known);
  let (shards, cases, max_init, max_ops) = match tier {
    Tier::Quick => (16, 4000, 8, 40),
    Tier::Thorough => (16, 40000, 14, 160),
  };
  let cfg = SearchCfg { prop, label: "ops", seed, shards, cases_per_shard: cases, max_shrink_iters: 4000 };
  let (stats, found) = driver::search(&cfg, &known, || dag::case_strategy(max_init, max_ops), |c, s| check(c, which, s), |c| dag::pretty(c));
  report.absorb("ops", stats, found);
  // Long histories on small graphs.
  if report.violations.is_empty() {
    let (shards, cases, min_ops, max_ops) = match tier { Tier::Quick => (16, 40, 500, 1500), Tier::Thorough => (16, 400, 500, 4000) };
    let cfg = SearchCfg { prop, label: "ops", seed: seed ^ 0x10f6, shards, cases_per_shard: cases, max_shrink_iters: 600 };
    let (stats, found) = driver::search(&cfg, &known, || dag::long_case_strategy(7, min_ops, max_ops), |c, s| { let r = check(c, which, s); s.class("long_history_case"); r }, |c| dag::pretty(c));
    report.extra.insert("long_history_cases".into(), json!(stats.evaluations));
    report.absorb("ops", stats, found);
  }
  // Small-scope exhaustive enumeration.
  let scopes: &[(u8, usize)] = match tier {
    Tier::Quick => &[(2, 1), (2, 2), (2, 3), (2, 4), (3, 1), (3, 2), (3, 3)],
    Tier::Thorough => &[(2, 1), (2, 2), (2, 3), (2, 4), (2, 5), (3, 1), (3, 2), (3, 3), (3, 4), (3, 5)],
  };
  let mut enumerated = 0u64;
  for (init, len) in scopes {
    let (count, found) = dag::enumerate(*init, *len, which, 16);
    enumerated += count;
    if let Some((case, msg)) = found {
      report.violation("ops", &serde_json::to_value(&case).unwrap(), &Failure::new(msg), &dag::pretty(&case));
      break;
    }
  }
  // C11: every interleaving of mutators and single reachability queries (nothing else queried in between).
  if which == Tag::C11 && report.violations.is_empty() {
    let qscopes: &[(u8, usize)] = match tier { Tier::Quick => &[(2, 3), (2, 4), (3, 3)], Tier::Thorough => &[(2, 3), (2, 4), (2, 5), (3, 3), (3, 4)] };
    let mut qenum = 0u64;
    for (init, len) in qscopes {
      let (count, found) = dag::enumerate_with(*init, *len, which, 16, true);
      qenum += count;
      if let Some((case, msg)) = found {
        report.violation("ops", &serde_json::to_value(&case).unwrap(), &Failure::new(msg), &dag::pretty(&case));
        break;
      }
    }
    enumerated += qenum;
    report.extra.insert("exhaustive_sequences_with_single_queries".into(), json!(qenum));
    report.extra.insert("exhaustive_scope_with_single_queries".into(), json!(format!("scopes {:?}: alphabet extended by one contains_transitive_edge query per ordered pair, no other query before the last operation", qscopes)));
  }
  report.stats.evaluations += enumerated;
  report.extra.insert("exhaustive_sequences".into(), json!(enumerated));
  report.extra.insert("exhaustive_scope".into(), json!(format!("all op sequences of the listed (initial nodes, length) scopes {:?} over the full alphabet (add_node, every add_edge pair incl. self, every remove_edge pair, remove_outgoing, remove_node), checked after the last op", scopes)));
  if tier == Tier::Thorough && report.violations.is_empty() && std::env::var("PV_NO_FUZZ").is_err() {
    crate::fuzz::campaign(prop, 250000, 16, &mut report);
  }
  report.assumptions = vec![
    "reference graph (Vec adjacency, BFS) is correct".into(),
    "topo_cmp only queried on live nodes (documented precondition)".into(),
    "returned order of remove_outgoing_edges_of_node compared as a multiset".into(),
  ];
  report.finish()
}
