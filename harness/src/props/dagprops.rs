//! C10 (acyclic, gap-free topological order) and C11 (queries agree with the true edge set).

use std::path::Path;

use serde_json::json;

use crate::dag::{self, DagCase, DagFacts, Tag};
use crate::driver::{self, CheckResult, Failure, Known, Report, SearchCfg, Stats, Tier};

fn tag_of(prop: &str) -> Tag { if prop == "C10" { Tag::C10 } else { Tag::C11 } }

pub fn check(case: &DagCase, which: Tag, stats: &mut Stats) -> CheckResult {
  let mut facts = DagFacts::default();
  let fails = dag::run_case(case, true, &mut facts);
  dag::record(case, &facts, stats, which);
  stats.sample(|| json!(dag::pretty(case)));
  match fails.into_iter().find(|(t, _)| *t == which) {
    Some((_, msg)) => Err(Failure::new(msg)),
    None => Ok(()),
  }
}

pub fn replay(prop: &str, _label: &str, path: &Path) -> Result<CheckResult, String> {
  let (_, _, case): (_, _, DagCase) = driver::load_replay(path)?;
  Ok(check(&case, tag_of(prop), &mut Stats::dummy()))
}

pub fn run(prop: &str, tier: Tier, seed: u64) -> i32 {
  let which = tag_of(prop);
  let rule = match which {
    Tag::C10 => "proptest-generated op sequences (add_node/add_edge/re-add/remove_edge/remove_outgoing/remove_node incl. removed nodes and self edges) vs naive reference graph, all assertions after every op; non-trivial = sequence with an accepted back-insertion that changed the rank of >=3 nodes, or a rejected cycle of length >=3 after a removal; distinct by case hash",
    Tag::C11 => "same sequences; all pair/adjacency/descendant/topo_cmp queries after every op vs reference; non-trivial = re-insertion of an existing edge that is not last in an adjacency list of >=2, or a removal that leaves the source with other edges; distinct by case hash",
  };
  let mut report = Report::new(prop, tier, seed, "exploration", rule);
  let known = Known::load(prop);
  super::prologue(&mut report, &known);
  let (shards, cases, max_init, max_ops) = match tier {
    Tier::Quick => (8, 2500, 8, 40),
    Tier::Thorough => (16, 40000, 14, 160),
  };
  let cfg = SearchCfg { prop, label: "ops", seed, shards, cases_per_shard: cases, max_shrink_iters: 4000 };
  let (stats, found) = driver::search(&cfg, &known, || dag::case_strategy(max_init, max_ops), |c, s| check(c, which, s), |c| dag::pretty(c));
  report.absorb("ops", stats, found);
  // Small-scope exhaustive enumeration.
  let scopes: &[(u8, usize)] = match tier {
    Tier::Quick => &[(2, 1), (2, 2), (2, 3), (2, 4), (3, 1), (3, 2), (3, 3)],
    Tier::Thorough => &[(2, 1), (2, 2), (2, 3), (2, 4), (2, 5), (3, 1), (3, 2), (3, 3), (3, 4), (3, 5)],
  };
  let mut enumerated = 0u64;
  for (init, len) in scopes {
    let (count, found) = dag::enumerate(*init, *len, which, 16);
    enumerated += count;
    if let Some((case, msg)) = found {
      report.violation("ops", &serde_json::to_value(&case).unwrap(), &Failure::new(msg), &dag::pretty(&case));
      break;
    }
  }
  report.stats.evaluations += enumerated;
  report.extra.insert("exhaustive_sequences".into(), json!(enumerated));
  report.extra.insert("exhaustive_scope".into(), json!(format!("all op sequences of the listed (initial nodes, length) scopes {:?} over the full alphabet (add_node, every add_edge pair incl. self, every remove_edge pair, remove_outgoing, remove_node), checked after the last op", scopes)));
  if tier == Tier::Thorough && report.violations.is_empty() && std::env::var("PV_NO_FUZZ").is_err() {
    crate::fuzz::campaign(prop, 250000, 16, &mut report);
  }
  report.assumptions = vec![
    "reference graph (Vec adjacency, BFS) is correct".into(),
    "topo_cmp only queried on live nodes (documented precondition)".into(),
    "returned order of remove_outgoing_edges_of_node compared as a multiset".into(),
  ];
  report.finish()
}
