//! C14: the in-memory map resource gives read-your-writes with per-type isolation; MapEqualsChecker is consistent
//! exactly when the value/absence is unchanged; typed resource state slots never alias.

use std::collections::hash_map::Entry;
use std::collections::BTreeMap;
use std::convert::Infallible;
use std::path::Path;

use pie::resource::map::{GetGlobalMap, MapEqualsChecker, MapKey, MapKeyObjToObj, MapKeyToObj, MapValueObj};
use pie::trait_object::KeyObj;
use pie::{Context, Pie, Resource, ResourceChecker, ResourceState, Task};
use proptest::prelude::*;
use serde::{Deserialize, Serialize};
use serde_json::json;

use crate::driver::{self, fingerprint, CheckResult, Failure, Known, Report, SearchCfg, Stats, Tier};

#[derive(Clone, Debug, Serialize, Deserialize, PartialEq, Eq, Hash, PartialOrd, Ord)]
pub enum MVal { N(u16), S(String) }

fn bump(v: Option<&MVal>) -> MVal {
  match v { None => MVal::N(7), Some(MVal::N(x)) => MVal::N(x.wrapping_add(1)), Some(MVal::S(s)) => MVal::S(format!("{}!", s)) }
}

/// kt: 0 = K1(u8), 1 = K2(u8), 2 = MapKeyToObj<u8>, 3 = MapKeyObjToObj (inner: 0 = K1, 1 = K2, 2 = u8, 3 = Z1, 4 = Z2, 5 = (), 6 = Box<K1>, 7 = Box<u8>, 8 = Box<Z1>:
/// wrappers with the hash and Debug text of what they wrap; 3, 4, 5, 8 are zero-sized key types, identical (empty) bytes, hash and Debug text, and - boxed - the same address; raw is 0 for them).
#[derive(Clone, Copy, Debug, Serialize, Deserialize, PartialEq, Eq, Hash, PartialOrd, Ord)]
pub struct MKey { pub kt: u8, pub inner: u8, pub raw: u8 }

#[derive(Clone, PartialEq, Eq, Hash, Debug)]
pub struct K1(pub u8);
impl MapKey for K1 { type Value = u16; }
#[derive(Clone, PartialEq, Eq, Hash, Debug)]
pub struct K2(pub u8);
impl MapKey for K2 { type Value = u16; }

#[derive(Clone, PartialEq, Eq, Hash)]
pub struct Z1;
#[derive(Clone, PartialEq, Eq, Hash)]
pub struct Z2;
impl std::fmt::Debug for Z1 { fn fmt(&self, f: &mut std::fmt::Formatter<'_>) -> std::fmt::Result { write!(f, "()") } }
impl std::fmt::Debug for Z2 { fn fmt(&self, f: &mut std::fmt::Formatter<'_>) -> std::fmt::Result { write!(f, "()") } }
/// Sink types: destinations of the copy task for the zero-sized sources (never generated as sources themselves).
#[derive(Clone, PartialEq, Eq, Hash, Debug)]
pub struct ZS1;
#[derive(Clone, PartialEq, Eq, Hash, Debug)]
pub struct ZS2;
#[derive(Clone, PartialEq, Eq, Hash, Debug)]
pub struct ZS3;
#[derive(Clone, PartialEq, Eq, Hash, Debug)]
pub struct ZS4;
pub const NINNER: u8 = 9;

pub trait Kx: MapKey + Clone {
  fn mk(v: &MVal) -> Self::Value;
  fn back(v: &Self::Value) -> MVal;
}
impl Kx for K1 { fn mk(v: &MVal) -> u16 { match v { MVal::N(x) => *x, MVal::S(s) => s.len() as u16 } } fn back(v: &u16) -> MVal { MVal::N(*v) } }
impl Kx for K2 { fn mk(v: &MVal) -> u16 { match v { MVal::N(x) => *x, MVal::S(s) => s.len() as u16 } } fn back(v: &u16) -> MVal { MVal::N(*v) } }
fn obj(v: &MVal) -> Box<dyn MapValueObj> { match v { MVal::N(x) => Box::new(*x), MVal::S(s) => Box::new(s.clone()) } }
fn unobj(v: &Box<dyn MapValueObj>) -> MVal {
  if let Some(x) = v.as_ref().as_any().downcast_ref::<u16>() { MVal::N(*x) } else if let Some(s) = v.as_ref().as_any().downcast_ref::<String>() { MVal::S(s.clone()) } else { MVal::S("<unknown type>".into()) }
}
impl Kx for MapKeyToObj<u8> { fn mk(v: &MVal) -> Box<dyn MapValueObj> { obj(v) } fn back(v: &Box<dyn MapValueObj>) -> MVal { unobj(v) } }
impl Kx for MapKeyObjToObj { fn mk(v: &MVal) -> Box<dyn MapValueObj> { obj(v) } fn back(v: &Box<dyn MapValueObj>) -> MVal { unobj(v) } }

fn normalize(k: &MKey, v: &MVal) -> MVal { if k.kt < 2 { K1::back(&K1::mk(v)) } else { v.clone() } }

fn objkey(k: &MKey) -> MapKeyObjToObj {
  let b: Box<dyn KeyObj> = match k.inner { 0 => Box::new(K1(k.raw)), 1 => Box::new(K2(k.raw)), 2 => Box::new(k.raw), 3 => Box::new(Z1), 4 => Box::new(Z2), 5 => Box::new(()), 6 => Box::new(Box::new(K1(k.raw))), 7 => Box::new(Box::new(k.raw)), 8 => Box::new(Box::new(Z1)), 9 => Box::new(ZS1), 10 => Box::new(ZS2), 11 => Box::new(ZS3), _ => Box::new(ZS4) };
  MapKeyObjToObj::new(b)
}

#[derive(Clone, Debug, Serialize, Deserialize, PartialEq, Eq, Hash)]
pub enum RawOp { GetV, GetS, GetMutPush(u8), SetV(Vec<u8>), SetS(String), GetBoxed, SetBoxedV(Vec<u8>), DefaultV, DefaultMutPush(u8), DefaultS,
  /// `*state.get_boxed_mut().unwrap() = Box::new(..)`: the box is replaced in place by a value of possibly another type.
  ReplaceBoxedV(Vec<u8>), ReplaceBoxedS(String) }

#[derive(Clone, Debug, Serialize, Deserialize, PartialEq, Eq, Hash)]
pub enum MOp {
  WInsert { k: MKey, v: MVal },
  WOrInsert { k: MKey, v: MVal },
  WAndModify { k: MKey },
  WRemove { k: MKey },
  DInsert { k: MKey, v: MVal },
  DRemove { k: MKey },
  Read { k: MKey },
  /// Stamp via all three routes, then apply `then` (an op on the same key or a no-op read), then check.
  StampCheck { k: MKey, then: Box<MOp> },
  /// Raw typed state access for resource type rt (0 = K1's slot, 1 = K2's slot, 2 = plain resource A, 3 = plain B).
  Raw { rt: u8, op: RawOp },
  /// Through a real task: read src (Context::read), write bump(value) to the key raw+100 of the same type (Context::write).
  Copy { src: MKey },
}

// Plain resources for raw slot isolation.
#[derive(Clone, PartialEq, Eq, Hash, Debug)]
pub struct PA(pub u8);
#[derive(Clone, PartialEq, Eq, Hash, Debug)]
pub struct PB(pub u8);
macro_rules! plain_resource { ($t:ty) => {
  impl Resource for $t {
    type Reader<'rs> = ();
    type Writer<'r> = ();
    type Error = Infallible;
    fn read<'rs, RS: ResourceState<Self>>(&self, _s: &'rs mut RS) -> Result<(), Infallible> { Ok(()) }
    fn write<'r, RS: ResourceState<Self>>(&'r self, _s: &'r mut RS) -> Result<(), Infallible> { Ok(()) }
  }
} }
plain_resource!(PA);
plain_resource!(PB);

#[derive(Clone, Debug, PartialEq, Eq)]
enum Slot { Unset, Map, V(Vec<u8>), S(String) }

struct Model {
  maps: BTreeMap<MKey, MVal>,
  /// slot per kt (0..4) and per plain resource (4, 5)
  slots: Vec<Slot>,
}

impl Model {
  /// Accessing the map of `kt` through get_global_map: a slot holding another type is replaced by an empty map.
  fn touch_map(&mut self, kt: u8) {
    if self.slots[kt as usize] != Slot::Map {
      self.slots[kt as usize] = Slot::Map;
      self.maps.retain(|k, _| k.kt != kt);
    }
  }
  /// A raw `set`/default on slot of kt destroys that type's map.
  fn clobber(&mut self, slot: usize, new: Slot) {
    if slot < 4 && new != Slot::Map { self.maps.retain(|k, _| k.kt as usize != slot); }
    self.slots[slot] = new;
  }
}

#[derive(Clone, PartialEq, Eq, Hash, Debug)]
struct CopyTask<K>(K, K);
impl<K: Kx> Task for CopyTask<K> where K::Value: Clone + Eq + std::fmt::Debug {
  type Output = Option<String>;
  fn execute<C: Context>(&self, ctx: &mut C) -> Self::Output {
    let seen: Option<MVal> = ctx.read(&self.0, MapEqualsChecker).ok().and_then(|r| r.map(|v| K::back(v)));
    let out = bump(seen.as_ref());
    let o2 = out.clone();
    let _ = ctx.write(&self.1, MapEqualsChecker, move |w| { w.insert(K::mk(&o2)); Ok(()) });
    Some(format!("{:?}", out))
  }
}

struct Sut { pie: Pie<()> }

fn fail(step: usize, op: &MOp, msg: String) -> Failure { Failure::new(format!("step {} {:?}: {}", step, op, msg)) }

/// Applies a map op for a concrete key type. Returns what a read observed (for Read ops).
fn map_op<K: Kx>(sut: &mut Sut, m: &mut Model, key: &K, mk: &MKey, op: &MOp, step: usize) -> CheckResult where K::Value: Clone + Eq + std::fmt::Debug {
  m.touch_map(mk.kt);
  match op {
    MOp::WInsert { v, .. } | MOp::WOrInsert { v, .. } => {
      let st = sut.pie.resource_state_mut::<K>();
      let mut w = key.write(st).unwrap();
      let before = w.get().map(|x| K::back(x));
      if before.as_ref() != m.maps.get(mk) { return Err(fail(step, op, format!("MapWriter::get sees {:?}, last stored {:?}", before, m.maps.get(mk)))); }
      let v = normalize(mk, v);
      if matches!(op, MOp::WInsert { .. }) {
        let prev = w.insert(K::mk(&v)).map(|x| K::back(&x));
        if prev.as_ref() != m.maps.get(mk) { return Err(fail(step, op, format!("insert returned previous {:?}, last stored {:?}", prev, m.maps.get(mk)))); }
        m.maps.insert(*mk, v);
      } else {
        w.entry().or_insert(K::mk(&v));
        m.maps.entry(*mk).or_insert(v);
      }
      // The writer itself sees the write, and a stamp from this writer equals a later stamp from the state.
      let after = w.get().map(|x| K::back(x));
      if after.as_ref() != m.maps.get(mk) { return Err(fail(step, op, format!("MapWriter::get after the write sees {:?}, expected {:?}", after, m.maps.get(mk)))); }
      let sw = MapEqualsChecker.stamp_writer(key, w).unwrap().map(|x| K::back(&x));
      if sw.as_ref() != m.maps.get(mk) { return Err(fail(step, op, format!("stamp_writer after the write is {:?}, expected {:?}", sw, m.maps.get(mk)))); }
    }
    MOp::WAndModify { .. } => {
      let st = sut.pie.resource_state_mut::<K>();
      let mut w = key.write(st).unwrap();
      w.entry().and_modify(|x| { *x = K::mk(&bump(Some(&K::back(x)))); });
      if let Some(cur) = m.maps.get(mk).cloned() { m.maps.insert(*mk, normalize(mk, &bump(Some(&cur)))); }
    }
    MOp::WRemove { .. } => {
      let st = sut.pie.resource_state_mut::<K>();
      let mut w = key.write(st).unwrap();
      if let Entry::Occupied(e) = w.entry() { e.remove(); }
      m.maps.remove(mk);
    }
    MOp::DInsert { v, .. } => {
      let v = normalize(mk, v);
      sut.pie.resource_state_mut::<K>().get_global_map_mut().insert(key.clone(), K::mk(&v));
      m.maps.insert(*mk, v);
    }
    MOp::DRemove { .. } => {
      sut.pie.resource_state_mut::<K>().get_global_map_mut().remove(key);
      m.maps.remove(mk);
    }
    MOp::Read { .. } => {
      let st = sut.pie.resource_state_mut::<K>();
      let got = key.read(st).unwrap().map(|x| K::back(x));
      if got.as_ref() != m.maps.get(mk) { return Err(fail(step, op, format!("read yields {:?}, most recently stored {:?}", got, m.maps.get(mk)))); }
    }
    MOp::StampCheck { then, .. } => {
      let st = sut.pie.resource_state_mut::<K>();
      let s1 = MapEqualsChecker.stamp(key, st).unwrap();
      let s2 = { let mut r = key.read(st).unwrap(); MapEqualsChecker.stamp_reader(key, &mut r).unwrap() };
      let s3 = { let w = key.write(st).unwrap(); MapEqualsChecker.stamp_writer(key, w).unwrap() };
      let as_m = |s: &Option<K::Value>| s.as_ref().map(|x| K::back(x));
      if as_m(&s1) != as_m(&s2) || as_m(&s1) != as_m(&s3) || as_m(&s1).as_ref() != m.maps.get(mk) {
        return Err(fail(step, op, format!("stamps from state/reader/writer {:?}/{:?}/{:?}, stored value {:?}", as_m(&s1), as_m(&s2), as_m(&s3), m.maps.get(mk))));
      }
      let before = m.maps.get(mk).cloned();
      map_op(sut, m, key, mk, then, step)?;
      let after = m.maps.get(mk).cloned();
      let st = sut.pie.resource_state_mut::<K>();
      let inconsistent = MapEqualsChecker.check(key, st, &s1).unwrap().is_some();
      if inconsistent != (before != after) {
        return Err(fail(step, op, format!("stamped {:?}, now {:?}: check reports inconsistent={}", before, after, inconsistent)));
      }
    }
    MOp::Copy { .. } | MOp::Raw { .. } => unreachable!(),
  }
  Ok(())
}

fn copy_op<K: Kx>(sut: &mut Sut, m: &mut Model, src: &K, dst: &K, msrc: &MKey, step: usize, op: &MOp) -> CheckResult where K::Value: Clone + Eq + std::fmt::Debug {
  m.touch_map(msrc.kt);
  let mdst = copy_dst(msrc);
  let want = normalize(msrc, &bump(m.maps.get(msrc)));
  let out = sut.pie.new_session().require(&CopyTask(src.clone(), dst.clone()));
  m.maps.insert(mdst, want.clone());
  let _ = out;
  let st = sut.pie.resource_state_mut::<K>();
  let got = dst.read(st).unwrap().map(|x| K::back(x));
  if got != Some(want.clone()) { return Err(fail(step, op, format!("after requiring the copy task the destination holds {:?}, expected {:?}", got, want))); }
  Ok(())
}

fn raw_op<R: Resource>(sut: &mut Sut, m: &mut Model, slot: usize, op: &RawOp, step: usize, mop: &MOp) -> CheckResult {
  let st = sut.pie.resource_state_mut::<R>();
  let cur = m.slots[slot].clone();
  match op {
    RawOp::GetV => {
      let got = st.get::<Vec<u8>>().cloned();
      let want = if let Slot::V(v) = &cur { Some(v.clone()) } else { None };
      if got != want { return Err(fail(step, mop, format!("get::<Vec<u8>> = {:?}, expected {:?}", got, want))); }
    }
    RawOp::GetS => {
      let got = st.get::<String>().cloned();
      let want = if let Slot::S(v) = &cur { Some(v.clone()) } else { None };
      if got != want { return Err(fail(step, mop, format!("get::<String> = {:?}, expected {:?}", got, want))); }
    }
    RawOp::GetMutPush(x) => {
      let got = st.get_mut::<Vec<u8>>().map(|v| { v.push(*x); v.clone() });
      let want = if let Slot::V(v) = &cur { let mut v = v.clone(); v.push(*x); Some(v) } else { None };
      if got != want { return Err(fail(step, mop, format!("get_mut::<Vec<u8>> = {:?}, expected {:?}", got, want))); }
      if let Some(v) = want { m.slots[slot] = Slot::V(v); }
    }
    RawOp::SetV(v) => { st.set(v.clone()); m.clobber(slot, Slot::V(v.clone())); }
    RawOp::SetS(s) => { st.set(s.clone()); m.clobber(slot, Slot::S(s.clone())); }
    RawOp::GetBoxed => {
      let got = st.get_boxed().is_some();
      let want = cur != Slot::Unset;
      if got != want { return Err(fail(step, mop, format!("get_boxed().is_some() = {}, expected {}", got, want))); }
      if st.get_boxed_mut().is_some() != want { return Err(fail(step, mop, "get_boxed_mut disagrees with get_boxed".to_string())); }
    }
    RawOp::SetBoxedV(v) => { st.set_boxed(Box::new(v.clone())); m.clobber(slot, Slot::V(v.clone())); }
    RawOp::ReplaceBoxedV(v) => {
      if let Some(b) = st.get_boxed_mut() { *b = Box::new(v.clone()); m.clobber(slot, Slot::V(v.clone())); } else if cur != Slot::Unset { return Err(fail(step, mop, "get_boxed_mut() is None although state was set".to_string())); }
    }
    RawOp::ReplaceBoxedS(x) => {
      if let Some(b) = st.get_boxed_mut() { *b = Box::new(x.clone()); m.clobber(slot, Slot::S(x.clone())); } else if cur != Slot::Unset { return Err(fail(step, mop, "get_boxed_mut() is None although state was set".to_string())); }
    }
    RawOp::DefaultV => {
      let got = st.get_or_set_default::<Vec<u8>>().clone();
      let want = if let Slot::V(v) = &cur { v.clone() } else { vec![] };
      if got != want { return Err(fail(step, mop, format!("get_or_set_default::<Vec<u8>> = {:?}, expected {:?}", got, want))); }
      m.clobber(slot, Slot::V(want));
    }
    RawOp::DefaultMutPush(x) => {
      let v = st.get_or_set_default_mut::<Vec<u8>>();
      v.push(*x);
      let got = v.clone();
      let mut want = if let Slot::V(v) = &cur { v.clone() } else { vec![] };
      want.push(*x);
      if got != want { return Err(fail(step, mop, format!("get_or_set_default_mut::<Vec<u8>> after push = {:?}, expected {:?}", got, want))); }
      m.clobber(slot, Slot::V(want));
    }
    RawOp::DefaultS => {
      let got = st.get_or_set_default::<String>().clone();
      let want = if let Slot::S(v) = &cur { v.clone() } else { String::new() };
      if got != want { return Err(fail(step, mop, format!("get_or_set_default::<String> = {:?}, expected {:?}", got, want))); }
      m.clobber(slot, Slot::S(want));
    }
  }
  Ok(())
}

fn key_of(op: &MOp) -> Option<MKey> {
  match op {
    MOp::WInsert { k, .. } | MOp::WOrInsert { k, .. } | MOp::WAndModify { k } | MOp::WRemove { k } | MOp::DInsert { k, .. } | MOp::DRemove { k } | MOp::Read { k } | MOp::StampCheck { k, .. } => Some(*k),
    MOp::Copy { src } => Some(*src),
    MOp::Raw { .. } => None,
  }
}

fn dispatch(sut: &mut Sut, m: &mut Model, op: &MOp, step: usize) -> CheckResult {
  match op {
    MOp::Raw { rt, op: r } => match rt % 4 {
      0 => raw_op::<K1>(sut, m, 0, r, step, op),
      1 => raw_op::<K2>(sut, m, 1, r, step, op),
      2 => raw_op::<PA>(sut, m, 4, r, step, op),
      _ => raw_op::<PB>(sut, m, 5, r, step, op),
    },
    MOp::Copy { src } => {
      let d = src.raw.wrapping_add(100);
      match src.kt % 4 {
        0 => copy_op(sut, m, &K1(src.raw), &K1(d), src, step, op),
        1 => copy_op(sut, m, &K2(src.raw), &K2(d), src, step, op),
        2 => copy_op(sut, m, &MapKeyToObj(src.raw), &MapKeyToObj(d), src, step, op),
        _ => copy_op(sut, m, &objkey(src), &objkey(&copy_dst(src)), src, step, op),
      }
    }
    _ => {
      let k = key_of(op).unwrap();
      match k.kt % 4 {
        0 => map_op(sut, m, &K1(k.raw), &k, op, step),
        1 => map_op(sut, m, &K2(k.raw), &k, op, step),
        2 => map_op(sut, m, &MapKeyToObj(k.raw), &k, op, step),
        _ => map_op(sut, m, &objkey(&k), &k, op, step),
      }
    }
  }
}

/// Full comparison of every map and every slot (isolation: an access for one type never changes what another sees).
fn compare_all(sut: &mut Sut, m: &Model, step: usize, op: &MOp) -> CheckResult {
  fn dump<K: Kx + std::fmt::Debug>(sut: &mut Sut, present: bool) -> Option<Vec<(String, MVal)>> {
    if !present { return None; }
    // Read-only peek: `get` does not replace the slot.
    let st = sut.pie.resource_state_mut::<K>();
    let map = st.get::<std::collections::HashMap<K, K::Value>>()?;
    let mut v: Vec<(String, MVal)> = map.iter().map(|(k, v)| (format!("{:?}", k), K::back(v))).collect();
    v.sort();
    Some(v)
  }
  let want = |kt: u8, name: &dyn Fn(&MKey) -> String| -> Vec<(String, MVal)> {
    let mut v: Vec<(String, MVal)> = m.maps.iter().filter(|(k, _)| k.kt == kt).map(|(k, v)| (name(k), v.clone())).collect();
    v.sort();
    v
  };
  let checks: Vec<(u8, Option<Vec<(String, MVal)>>, Vec<(String, MVal)>)> = vec![
    (0, dump::<K1>(sut, m.slots[0] == Slot::Map), want(0, &|k| format!("{:?}", K1(k.raw)))),
    (1, dump::<K2>(sut, m.slots[1] == Slot::Map), want(1, &|k| format!("{:?}", K2(k.raw)))),
    (2, dump::<MapKeyToObj<u8>>(sut, m.slots[2] == Slot::Map), want(2, &|k| format!("{:?}", MapKeyToObj(k.raw)))),
    (3, dump::<MapKeyObjToObj>(sut, m.slots[3] == Slot::Map), want(3, &|k| format!("{:?}", objkey(k)))),
  ];
  for (kt, got, want) in checks {
    if m.slots[kt as usize] == Slot::Map {
      match got {
        Some(g) if g == want => {}
        other => return Err(fail(step, op, format!("map of key type {} holds {:?}, expected {:?}", kt, other, want))),
      }
    }
  }
  Ok(())
}

/// Two distinct resource types with the same `std::any::type_name` (declared in sibling blocks of one function), the same
/// bytes and the same hash: their per-type state must not alias. Each block hands out closures over its own type.
type SetFn = Box<dyn Fn(&mut Pie<()>, u8, Option<u16>)>;
type GetFn = Box<dyn Fn(&mut Pie<()>, u8) -> Option<u16>>;
fn same_name_types() -> [(SetFn, GetFn, &'static str); 2] {
  fn ops<K: MapKey<Value=u16> + Clone>(mk: fn(u8) -> K) -> (SetFn, GetFn, &'static str) {
    (
      Box::new(move |pie, k, v| { let m = pie.resource_state_mut::<K>().get_global_map_mut(); match v { Some(v) => { m.insert(mk(k), v); } None => { m.remove(&mk(k)); } } }),
      Box::new(move |pie, k| { let st = pie.resource_state_mut::<K>(); mk(k).read(st).unwrap().copied() }),
      std::any::type_name::<K>(),
    )
  }
  let a = { #[derive(Clone, PartialEq, Eq, Hash, Debug)] struct Key(u8); impl MapKey for Key { type Value = u16; } ops::<Key>(Key) };
  let b = { #[derive(Clone, PartialEq, Eq, Hash, Debug)] struct Key(u8); impl MapKey for Key { type Value = u16; } ops::<Key>(Key) };
  [a, b]
}

/// Generated sequence of sets/removes/reads over the two same-named types against two reference maps.
fn same_name_check(ops: &[(u8, u8, Option<u16>)], stats: &mut Stats) -> CheckResult {
  let types = same_name_types();
  if types[0].2 == types[1].2 { stats.class("two_resource_types_with_identical_type_name"); }
  let mut pie: Pie<()> = Pie::default();
  let mut model: [BTreeMap<u8, u16>; 2] = [BTreeMap::new(), BTreeMap::new()];
  for (i, (which, k, v)) in ops.iter().enumerate() {
    let w = (*which % 2) as usize;
    (types[w].0)(&mut pie, *k, *v);
    match v { Some(v) => { model[w].insert(*k, *v); } None => { model[w].remove(k); } }
    for t in 0..2 {
      for key in 0..3u8 {
        let got = (types[t].1)(&mut pie, key);
        if got != model[t].get(&key).copied() {
          return Err(Failure::new(format!("same-named resource types ({} / {}): after op #{} ({:?}) on type #{}, reading key {} of type #{} yields {:?}, most recently stored {:?}", types[0].2, types[1].2, i, (k, v), w, key, t, got, model[t].get(&key))));
        }
      }
    }
  }
  Ok(())
}

#[derive(Clone, Debug, Serialize, Deserialize, PartialEq, Eq, Hash)]
pub struct MCase {
  pub ops: Vec<MOp>,
  /// (type 0/1, key, value or remove) on two resource types that share their `type_name`.
  #[serde(default)]
  pub same_name_ops: Vec<(u8, u8, Option<u16>)>,
}

fn zero_sized(inner: u8) -> bool { matches!(inner, 3 | 4 | 5 | 8) }
fn canon_key(k: &MKey) -> MKey {
  let kt = k.kt % 4;
  let inner = if kt == 3 { k.inner % NINNER } else { 0 };
  MKey { kt, inner, raw: if kt == 3 && zero_sized(inner) { 0 } else { k.raw } }
}
/// Destination of the copy task: same type with raw + 100; for the zero-sized key types (one value each) a dedicated
/// zero-sized sink type per source type, so that no copy task reads what another (or itself) writes (DESIGN P2, P4).
fn copy_dst(src: &MKey) -> MKey {
  if src.kt % 4 == 3 && zero_sized(src.inner) { MKey { inner: match src.inner { 3 => 9, 4 => 10, 5 => 11, _ => 12 }, ..*src } } else { MKey { raw: src.raw.wrapping_add(100), ..*src } }
}
fn canon(op: &MOp) -> MOp {
  match op {
    MOp::WInsert { k, v } => MOp::WInsert { k: canon_key(k), v: v.clone() },
    MOp::WOrInsert { k, v } => MOp::WOrInsert { k: canon_key(k), v: v.clone() },
    MOp::WAndModify { k } => MOp::WAndModify { k: canon_key(k) },
    MOp::WRemove { k } => MOp::WRemove { k: canon_key(k) },
    MOp::DInsert { k, v } => MOp::DInsert { k: canon_key(k), v: v.clone() },
    MOp::DRemove { k } => MOp::DRemove { k: canon_key(k) },
    MOp::Read { k } => MOp::Read { k: canon_key(k) },
    MOp::StampCheck { k, then } => {
      // the follow-up op acts on the stamped key
      let k = canon_key(k);
      let then = match canon(then) {
        MOp::WInsert { v, .. } => MOp::WInsert { k, v },
        MOp::WOrInsert { v, .. } => MOp::WOrInsert { k, v },
        MOp::WAndModify { .. } => MOp::WAndModify { k },
        MOp::WRemove { .. } => MOp::WRemove { k },
        MOp::DInsert { v, .. } => MOp::DInsert { k, v },
        MOp::DRemove { .. } => MOp::DRemove { k },
        _ => MOp::Read { k },
      };
      MOp::StampCheck { k, then: Box::new(then) }
    }
    MOp::Copy { src } => MOp::Copy { src: canon_key(src) },
    MOp::Raw { rt, op } => MOp::Raw { rt: *rt, op: op.clone() },
  }
}

pub fn check(case: &MCase, stats: &mut Stats) -> CheckResult {
  same_name_check(&case.same_name_ops, stats)?;
  let case = &MCase { ops: case.ops.iter().map(canon).collect(), same_name_ops: case.same_name_ops.clone() };
  let mut sut = Sut { pie: Pie::default() };
  let mut m = Model { maps: BTreeMap::new(), slots: vec![Slot::Unset; 6] };
  let mut types_with_equal_raw: BTreeMap<u8, std::collections::BTreeSet<(u8, u8)>> = BTreeMap::new();
  let mut direct_seen = false;
  let mut writer_after_direct = false;
  let mut read_after = false;
  for (i, op) in case.ops.iter().enumerate() {
    if let Some(k) = key_of(op) { types_with_equal_raw.entry(k.raw).or_default().insert((k.kt % 4, if k.kt % 4 == 3 { k.inner % NINNER } else { 0 })); if k.kt % 4 == 3 && zero_sized(k.inner) { stats.class("op_on_zero_sized_key_type"); } if k.kt % 4 == 3 && (6..=8).contains(&k.inner) { stats.class("op_on_boxed_key_type"); } }
    match op {
      MOp::DInsert { .. } | MOp::DRemove { .. } => direct_seen = true,
      MOp::WInsert { .. } | MOp::WOrInsert { .. } | MOp::WAndModify { .. } | MOp::WRemove { .. } | MOp::Copy { .. } => { if direct_seen { writer_after_direct = true; } }
      MOp::Read { .. } | MOp::StampCheck { .. } => { if writer_after_direct { read_after = true; } }
      _ => {}
    }
    dispatch(&mut sut, &mut m, op, i)?;
    compare_all(&mut sut, &m, i, op)?;
    // Raw slots of the plain resources and non-map contents of K1/K2 slots.
    for (slot, which) in [(0usize, 0u8), (1, 1), (4, 2), (5, 3)] {
      let got_v = match which { 0 => sut.pie.resource_state_mut::<K1>().get::<Vec<u8>>().cloned(), 1 => sut.pie.resource_state_mut::<K2>().get::<Vec<u8>>().cloned(), 2 => sut.pie.resource_state_mut::<PA>().get::<Vec<u8>>().cloned(), _ => sut.pie.resource_state_mut::<PB>().get::<Vec<u8>>().cloned() };
      let got_s = match which { 0 => sut.pie.resource_state_mut::<K1>().get::<String>().cloned(), 1 => sut.pie.resource_state_mut::<K2>().get::<String>().cloned(), 2 => sut.pie.resource_state_mut::<PA>().get::<String>().cloned(), _ => sut.pie.resource_state_mut::<PB>().get::<String>().cloned() };
      let (want_v, want_s) = match &m.slots[slot] { Slot::V(v) => (Some(v.clone()), None), Slot::S(s) => (None, Some(s.clone())), _ => (None, None) };
      if got_v != want_v || got_s != want_s {
        return Err(fail(i, op, format!("state slot of resource type #{} holds Vec {:?} / String {:?}, expected {:?} / {:?} (state of one resource type changed by an access for another?)", which, got_v, got_s, want_v, want_s)));
      }
    }
  }
  let aliasing = types_with_equal_raw.values().any(|s| s.len() >= 2);
  if aliasing { stats.class("equal_raw_key_under_>=2_key_types"); }
  if read_after { stats.class("read_after_writer_after_direct_edit"); }
  if aliasing && read_after { stats.nontrivial(fingerprint(case)); stats.sample(|| json!(format!("{:?}", case.ops))); }
  Ok(())
}

fn mkey() -> impl Strategy<Value=MKey> { (0u8..5, 0u8..NINNER, 0u8..3).prop_map(|(kt, inner, raw)| canon_key(&MKey { kt: kt.min(3), inner, raw })) }
fn mval() -> impl Strategy<Value=MVal> { prop_oneof![(0u16..4).prop_map(MVal::N), (0u8..3).prop_map(|b| MVal::S(((b'a' + b) as char).to_string()))] }
fn rawop() -> impl Strategy<Value=RawOp> {
  prop_oneof![
    Just(RawOp::GetV), Just(RawOp::GetS), (0u8..4).prop_map(RawOp::GetMutPush), proptest::collection::vec(0u8..4, 0..3).prop_map(RawOp::SetV),
    (0u8..3).prop_map(|b| RawOp::SetS(((b'a' + b) as char).to_string())), Just(RawOp::GetBoxed), proptest::collection::vec(0u8..4, 0..3).prop_map(RawOp::SetBoxedV),
    Just(RawOp::DefaultV), (0u8..4).prop_map(RawOp::DefaultMutPush), Just(RawOp::DefaultS),
    proptest::collection::vec(0u8..4, 0..3).prop_map(RawOp::ReplaceBoxedV), (0u8..3).prop_map(|b| RawOp::ReplaceBoxedS(((b'a' + b) as char).to_string())),
  ]
}
fn simple_op(k: MKey) -> impl Strategy<Value=MOp> {
  prop_oneof![
    mval().prop_map(move |v| MOp::WInsert { k, v }), mval().prop_map(move |v| MOp::WOrInsert { k, v }), Just(MOp::WAndModify { k }), Just(MOp::WRemove { k }),
    mval().prop_map(move |v| MOp::DInsert { k, v }), Just(MOp::DRemove { k }), Just(MOp::Read { k }),
  ]
}
fn mop() -> impl Strategy<Value=MOp> {
  prop_oneof![
    8 => mkey().prop_flat_map(simple_op),
    3 => mkey().prop_flat_map(|k| simple_op(k).prop_map(move |then| MOp::StampCheck { k, then: Box::new(then) })),
    2 => (0u8..4, rawop()).prop_map(|(rt, op)| MOp::Raw { rt, op }),
    2 => mkey().prop_map(|src| MOp::Copy { src }),
  ]
}
pub fn strategy(max: usize) -> impl Strategy<Value=MCase> {
  (proptest::collection::vec(mop(), 1..=max), proptest::collection::vec((0u8..2, 0u8..3, proptest::option::of(0u16..4)), 0..=6)).prop_map(|(ops, same_name_ops)| MCase { ops, same_name_ops })
}

pub fn replay(path: &Path) -> Result<CheckResult, String> {
  let (_, _, c): (_, _, MCase) = driver::load_replay(path)?;
  Ok(driver::guarded(|| check(&c, &mut Stats::dummy())))
}

pub fn run(tier: Tier, seed: u64) -> i32 {
  let rule = "proptest-generated operation sequences over four key types with identical raw keys (K1(u8), K2(u8), MapKeyToObj<u8>, MapKeyObjToObj over K1/K2/u8 the zero-sized key types Z1/Z2/() and the wrappers Box<K1>/Box<u8>/Box<Z1>) and two value types: insert / entry().or_insert / entry().and_modify / remove through MapWriter (Resource::write), direct edits through Pie::resource_state_mut().get_global_map_mut(), reads through Resource::read, stamps through all three routes of MapEqualsChecker followed by a change and a check, a copy task through Context::read/Context::write under a real Pie, a short sequence over two resource types that share their type_name (same-named structs in sibling blocks), and raw typed state calls (get, get_mut, set, get_boxed, set_boxed, replacement of the box through get_boxed_mut, get_or_set_default(_mut)) with matching and non-matching state types on four resource types; oracle: reference BTreeMap per (key type, key) and a slot model per resource type, every map and every slot compared after every operation; non-trivial = sequence touching >=2 key types with equal raw keys and containing a read after a writer-write after a direct edit; distinct by case hash";
  let mut report = Report::new("C14", tier, seed, "exploration", rule);
  let known = Known::load("C14");
  super::prologue(&mut report, &known);
  let (shards, cases, max) = match tier { Tier::Quick => (16, 4000, 24), Tier::Thorough => (16, 40000, 60) };
  let cfg = SearchCfg { prop: "C14", label: "ops", seed, shards, cases_per_shard: cases, max_shrink_iters: 3000 };
  let (stats, found) = driver::search(&cfg, &known, || strategy(max), |c, s| check(c, s), |c| format!("{:?}", c.ops));
  report.absorb("ops", stats, found);
  report.assumptions = vec!["get_or_set_default::<S> replacing a slot that holds another type is documented behaviour (the map of that key type is then empty)".into()];
  report.finish()
}
