//! C20: incremental builds abort only for violations that exist now.
//! (a) static-role programs never abort; (b) role-changing programs (well-formed in every state): a diagnosed abort is
//! spurious unless a from-scratch build of all known tasks in the current state aborts as well. Spurious aborts caused
//! by an edge that a not-yet-validated task recorded in an earlier state are the recorded findings C20-F1..F4.

use std::collections::{BTreeMap, BTreeSet};

use serde_json::json;

use crate::analyze::{panic_kind, Analysis, PanicKind};
use crate::driver::{self, fingerprint, CheckResult, Failure, Known, Report, SearchCfg, Stats, Tier};
use crate::engine::{self, BuildKind, BuildResult, Opts, Run};
use crate::gen::{self, GenCfg};
use crate::interp::{Ev, L};
use crate::lang::*;
use crate::model::{Dep, Eval, Shadow};

use super::build::{bu_cfg, identity, sample, Spec};

fn c20_judge(case: &Case, _run: &Run, an: &Analysis, stats: &mut Stats) -> CheckResult {
  // (a): static-role programs contain no violation in any state.
  let mut nontrivial = false;
  for b in &an.builds { if !b.facts.re_executed.is_empty() && (b.facts.dropped_require || b.facts.added_require) { nontrivial = true; } }
  if nontrivial { stats.nontrivial(fingerprint(case)); sample(case, stats); }
  if let Some(t) = an.has(&["panic-diagnosed", "panic-internal"]) {
    return Err(Failure::new(format!("[c20-abort-in-well-formed-program] {}", t.msg)));
  }
  Ok(())
}

fn ids(msg: &str) -> (Vec<TaskId>, Vec<ResId>) {
  let b = msg.as_bytes();
  let mut ts = vec![];
  let mut rs = vec![];
  let mut i = 0;
  while i < b.len() {
    if (b[i] == b'T' || b[i] == b'r') && i + 1 < b.len() && b[i + 1].is_ascii_digit() && (i == 0 || !b[i - 1].is_ascii_alphanumeric()) {
      let mut j = i + 1;
      let mut v: u32 = 0;
      while j < b.len() && b[j].is_ascii_digit() { v = v * 10 + (b[j] - b'0') as u32; j += 1; }
      if b[i] == b'T' { ts.push(v as TaskId); } else { rs.push(v as ResId); }
      i = j;
    } else { i += 1; }
  }
  (ts, rs)
}

fn model_has(done: &BTreeMap<TaskId, crate::model::Exec>, s: TaskId, f: impl Fn(&Dep) -> bool) -> bool {
  done.get(&s).map(|e| e.deps.iter().any(|d| f(d))).unwrap_or(false)
}

/// The stale edge named by the error must be one that the task really created (task-side log): its last execution -
/// completed, or cut by an abort after the access had returned - read (`write == false`) or wrote `r`.
fn sh_has(sh: &Shadow, t: TaskId, r: ResId, write: bool) -> bool {
  sh.last.get(&t).map(|e| e.ops.iter().any(|d| match d { Dep::Write { r: x, .. } => write && *x == r, Dep::Read { r: x, .. } => !write && *x == r, _ => false })).unwrap_or(false)
}

fn model_reaches(done: &BTreeMap<TaskId, crate::model::Exec>, from: TaskId, to: TaskId) -> bool {
  let mut seen = BTreeSet::new();
  let mut stack = vec![from];
  while let Some(n) = stack.pop() {
    if !seen.insert(n) { continue; }
    if let Some(e) = done.get(&n) {
      for d in &e.deps { if let Dep::Require { dst, .. } = d { if *dst == to { return true; } stack.push(*dst); } }
    }
  }
  false
}


pub enum AbortVerdict {
  /// A from-scratch build of all known tasks in the current state aborts as well.
  Confirmed,
  /// No violation exists now; `sig` names the stale-edge pattern (C20-F1..F4) if one explains the abort.
  Spurious { what: String, sig: Option<&'static str> },
}

/// Judges a diagnosed abort (cycle / hidden dependency / overlap) of build `bi` of `sess`: `sh` is the shadow record at
/// the moment of the abort, `current` the tasks validated so far in this session, `stack_at_abort` the executing tasks.
pub fn judge_abort(case: &Case, sess: &engine::SessionRec, bi: usize, msg: &str, sh: &Shadow, current: &BTreeSet<TaskId>, stack_at_abort: &[TaskId]) -> AbortVerdict {
  let b = &sess.builds[bi];
  let kind = panic_kind(msg);
      // O1: all known tasks from scratch in the current state, in two orders.
      let known: Vec<TaskId> = sh.known.iter().cloned().collect();
      let roots: Vec<TaskId> = sess.builds.iter().filter_map(|x| match &x.kind { BuildKind::TopDown(t) | BuildKind::Then(t) | BuildKind::Probe(t) => Some(*t), _ => None }).collect();
      let mut o1_violation = None;
      let mut done = BTreeMap::new();
      for order in [known.clone(), roots.iter().cloned().chain(known.iter().cloned()).collect::<Vec<_>>()] {
        let mut ev = Eval::new(&case.prog, sess.state_before.clone());
        for t in order { if ev.require_root(t).is_err() { break; } }
        if ev.violation.is_some() { o1_violation = ev.violation.clone(); }
        done = ev.done;
      }
      if o1_violation.is_some() { return AbortVerdict::Confirmed; }
      // Spurious. Attribute to a recorded finding by the stale-edge signature.
      let (ts, rs) = ids(msg);
      let cur_set: BTreeSet<TaskId> = current.iter().cloned().chain(stack_at_abort.iter().cloned()).collect();
      let what = format!("[c20-spurious-abort] step {} build {} ({:?}): the build aborted with '{}' but a from-scratch build of all known tasks {:?} in the current state finds no violation", sess.step, bi, b.kind, msg, known);
      let sig: Option<&'static str> = match kind {
        PanicKind::Overlap if ts.len() >= 2 && !rs.is_empty() => {
          let (s, r) = (ts[1], rs[0]);
          if !cur_set.contains(&s) && sh_has(sh, s, r, true) && !model_has(&done, s, |d| matches!(d, Dep::Write { r: x, .. } if *x == r)) { Some("C20-F1/overlap-with-stale-writer-edge") } else { None }
        }
        PanicKind::HiddenRead if ts.len() >= 2 && !rs.is_empty() => {
          let (s, r) = (ts[1], rs[0]);
          if !cur_set.contains(&s) && sh_has(sh, s, r, true) && !model_has(&done, s, |d| matches!(d, Dep::Write { r: x, .. } if *x == r)) { Some("C20-F4/hidden-dependency-on-read-with-stale-writer-edge") } else { None }
        }
        PanicKind::HiddenWrite if ts.len() >= 2 && !rs.is_empty() => {
          let (w, s, r) = (ts[0], ts[1], rs[0]);
          let reads_now = model_has(&done, s, |d| matches!(d, Dep::Read { r: x, .. } if *x == r));
          if !cur_set.contains(&s) && sh_has(sh, s, r, false) && (!reads_now || model_reaches(&done, s, w)) { Some("C20-F3/hidden-dependency-on-write-with-stale-reader-record") } else { None }
        }
        PanicKind::Cycle if ts.len() >= 2 => {
          let (src, dst) = (ts[0], ts[1]);
          // Remove stale require edges; does dst still reach src?
          let mut seen = BTreeSet::new();
          let mut stack = vec![dst];
          let mut reaches = false;
          while let Some(n) = stack.pop() {
            if !seen.insert(n) { continue; }
            if let Some(e) = sh.last.get(&n) {
              for d in e.requires() {
                let stale = !cur_set.contains(&n) && !model_has(&done, n, |x| matches!(x, Dep::Require { dst: y, .. } if *y == d));
                if stale { continue; }
                if d == src { reaches = true; }
                stack.push(d);
              }
            }
          }
          if !reaches { Some("C20-F2/cycle-through-stale-require-edge") } else { None }
        }
        _ => None,
      };
      AbortVerdict::Spurious { what, sig }
}

pub fn check_roles(case: &Case, stats: &mut Stats) -> CheckResult {
  let run = engine::run_case(case, &Opts::default());
  let mut sh = Shadow::default();
  let mut flips = 0;
  let mut reexec_after_flip = false;
  let mode_res = case.prog.n_res - 1;
  let mut aborted_any = false;
  for sess in run.sessions.iter() {
    if sess.changed_before.contains(&mode_res) { flips += 1; }
    let mut current: BTreeSet<TaskId> = BTreeSet::new();
    for (bi, b) in sess.builds.iter().enumerate() {
      let completed_before = sh.completed.clone();
      let mut stack_at_abort: Vec<TaskId> = vec![];
      for l in &run.log[b.log.clone()] {
        match l {
          L::E(Ev::RequireEnd { t, .. }) | L::E(Ev::CheckTaskEnd { t, .. }) | L::E(Ev::ExecEnd { t, .. }) => { current.insert(*t); }
          L::TEnter(t) => { if flips > 0 && completed_before.contains(t) { reexec_after_flip = true; } }
          L::Aborted => { stack_at_abort = sh.stack.clone(); }
          _ => {}
        }
        sh.feed(l);
      }
      let BuildResult::Panic(msg) = &b.result else { continue; };
      aborted_any = true;
      let kind = panic_kind(msg);
      if kind == PanicKind::Internal { return Err(Failure::new(format!("[c20-internal] step {} build {}: {}", sess.step, bi, msg))); }
      if kind == PanicKind::Injected { continue; }
      match judge_abort(case, sess, bi, msg, &sh, &current, &stack_at_abort) {
        AbortVerdict::Confirmed => {
          stats.class("abort_confirmed_by_from_scratch_build");
          return Ok(()); // a real violation exists in this state: no claim about this case
        }
        AbortVerdict::Spurious { what, sig } => {
          return match sig {
            Some(s) => { stats.class(s); Err(Failure::with_sig(what, s)) }
            None => Err(Failure::new(what)),
          };
        }
      }
    }
  }
  if !aborted_any { stats.class("role_case_without_abort"); }
  if flips > 0 { stats.class("role_case_with_mode_flip"); }
  if flips > 0 && reexec_after_flip { stats.nontrivial(fingerprint(case)); sample(case, stats); stats.class("re_execution_under_new_mode"); }
  Ok(())
}

fn roles_cfg(t: Tier) -> GenCfg {
  let mut c = bu_cfg(t);
  c.max_tasks = match t { Tier::Quick => 5, Tier::Thorough => 8 };
  c.max_steps = match t { Tier::Quick => 8, Tier::Thorough => 14 };
  c.bottom_up_weight = 2;
  c
}

fn c20_extra(_spec: &Spec, tier: Tier, seed: u64, known: &Known, report: &mut Report) {
  let (shards, cases) = match tier { Tier::Quick => (16, 8000), Tier::Thorough => (16, 40000) };
  let cfg = roles_cfg(tier);
  let scfg = SearchCfg { prop: "C20", label: "roles", seed, shards, cases_per_shard: cases, max_shrink_iters: 3000 };
  let (stats, found) = driver::search(&scfg, known, || gen::role_case_strategy(cfg.clone()), |c, s| check_roles(c, s), |c| pretty_case(c));
  report.absorb("roles", stats, found);
  // Programs with one state-dependent violation (guarded hidden dependency / overlap / cycle): same oracle.
  let (shards, cases) = match tier { Tier::Quick => (16, 6000), Tier::Thorough => (16, 60000) };
  let gcfg = super::diag::guarded_cfg(tier);
  let scfg = SearchCfg { prop: "C20", label: "guarded", seed, shards, cases_per_shard: cases, max_shrink_iters: 3000 };
  let (stats, found) = driver::search(&scfg, known, || super::diag::strategy(gcfg.clone()), |c, s| super::diag::check(c, super::diag::Mode::C20, s), |c| pretty_case(c));
  report.absorb("guarded", stats, found);
  // (c) aborts (task failures, injected panics) followed by bottom-up builds.
  let (shards, cases) = match tier { Tier::Quick => (16, 8000), Tier::Thorough => (16, 120000) };
  let acfg = after_aborts_cfg(tier);
  let scfg = SearchCfg { prop: "C20", label: "after-aborts", seed, shards, cases_per_shard: cases, max_shrink_iters: 3000 };
  let (stats, found) = driver::search(&scfg, known, || { use proptest::strategy::Strategy; gen::case_strategy(acfg.clone()).boxed() }, |c, s| check_after_aborts(c, s), |c| pretty_case(c));
  report.absorb("after-aborts", stats, found);
}

/// (c) Static-role programs whose tasks may fail, with injected panics, and bottom-up builds after the aborts: the only
/// demand is C20's - no build aborts with a cycle / hidden-dependency / overlap error (these programs contain none).
pub fn check_after_aborts(case: &Case, stats: &mut Stats) -> CheckResult {
  let run = engine::run_case(case, &Opts::default());
  let mut seen_abort = false;
  let mut bu_after_abort = false;
  let mut bu_exec_after_abort = false;
  for (si, sess) in run.sessions.iter().enumerate() {
    for (bi, b) in sess.builds.iter().enumerate() {
      let is_bu = matches!(b.kind, BuildKind::BottomUp(_));
      if seen_abort && is_bu {
        bu_after_abort = true;
        if run.log[b.log.clone()].iter().any(|l| matches!(l, L::TEnter(_))) { bu_exec_after_abort = true; }
      }
      let BuildResult::Panic(msg) = &b.result else { continue; };
      match panic_kind(msg) {
        PanicKind::Injected | PanicKind::TaskPanic => {}
        // Internal errors of bottom-up builds after an abort are outside every listed property (C19 claims later
        // top-down builds only); counted, not judged here.
        PanicKind::Internal => { stats.class(if is_bu { "internal_error_in_bottom_up_build_after_abort_(not_judged)" } else { "internal_error_in_top_down_build_(judged_by_C19)" }); }
        _ => {
          let what = format!("[c20-abort-in-well-formed-program] session {} build {} ({:?}) after {}an earlier abort: {}", si, bi, b.kind, if seen_abort { "" } else { "no " }, msg);
          if seen_abort && super::build::c19_f1_signature(&run, b, msg) {
            stats.class("c20_f5_hidden_dependency_after_abort_cut_a_path");
            return Err(Failure::with_sig(what, "C20-F5/hidden-write-after-aborted-intermediate"));
          }
          if seen_abort && !matches!(b.kind, BuildKind::TopDown(_) | BuildKind::Probe(_)) && super::build::c20_f6_signature(&run, b, msg) {
            stats.class("c20_f6_hidden_read_in_bottom_up_after_abort");
            return Err(Failure::with_sig(what, "C20-F6/hidden-read-in-bottom-up-build-through-aborted-intermediate"));
          }
          return Err(Failure::new(what));
        }
      }
      seen_abort = true;
    }
  }
  if seen_abort { stats.class("case_with_abort"); }
  if bu_after_abort { stats.class("bottom_up_build_after_an_abort"); }
  if bu_exec_after_abort { stats.class("bottom_up_build_executing_tasks_after_an_abort"); stats.nontrivial(fingerprint(case)); sample(case, stats); }
  Ok(())
}

pub fn after_aborts_cfg(t: Tier) -> GenCfg {
  let mut c = bu_cfg(t);
  c.bottom_up_weight = 3;
  c.task_panic_share = 8;
  c.panic_steps = true;
  c.bu_with_task_panics = true;
  c
}

pub fn replay_roles(case: &Case) -> CheckResult { driver::guarded(|| check_roles(case, &mut Stats::dummy())) }

pub const C20: Spec = Spec {
  prop: "C20",
  level: "exploration",
  rule: "(a) generated static-role programs (no violation in any state) x arbitrary top-down/bottom-up histories: no build may abort with a cycle, hidden-dependency or overlapping-write error; (b) generated role-changing programs: every task first reads a mode resource and then behaves as one of 2-3 independently generated static-role programs over a permuted task order with its own writer assignment, so who writes/reads/requires whom inverts between states while each state is well-formed; histories flip the mode and other resources; when a build aborts, the from-scratch evaluator builds all known tasks in the current state (two orders); if it finds no violation the abort is spurious: attributed to C20-F1..F4 only if the conflicting recorded edge belongs to a task not yet validated in this session that would not create it in the current state, otherwise reported. Non-trivial = (a) re-execution with a changed require set, (b) a mode flip followed by re-execution of a task under the new mode; distinct by case hash",
  cfg: bu_cfg,
  transform: identity,
  judge: c20_judge,
  opts: Opts::default,
  quick: (16, 10000),
  thorough: (16, 250000),
  extra: Some(c20_extra),
  strategy: None,
  assumptions: &["the from-scratch evaluator decides whether a violation exists in the current state", "panic messages name the tasks/resources involved (parsed for the finding signature only)"],
};

#[allow(dead_code)]
fn _unused() { let _ = json!(0); }
