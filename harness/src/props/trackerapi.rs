//! C17 part B: random call sequences of all 23 Tracker methods against CompositeTracker and EventTracker, and every
//! query helper of Event / EventTracker against reference implementations over the recorded call list.

use std::path::Path;
use std::rc::Rc;

use pie::tracker::event::{Event, EventTracker};
use pie::tracker::{CompositeTracker, Tracker};
use pie::trait_object::KeyObj;
use proptest::prelude::*;
use serde::{Deserialize, Serialize};
use serde_json::json;

use crate::driver::{self, fingerprint, CheckResult, Failure, Stats};
use crate::instr::event_tracker_projection;
use crate::interp::{self, Ev, Rec, Tk, VRes, Verdict};
use crate::lang::{num_out, Program};

#[derive(Clone, Debug, Serialize, Deserialize, PartialEq, Eq, Hash)]
pub struct Call { pub method: u8, pub a: u8, pub b: u8, pub c: u8 }

#[derive(Clone, Debug, Serialize, Deserialize, PartialEq, Eq, Hash)]
pub struct TCase { pub calls: Vec<Call>, pub probe_task: u8, pub probe_res: u8 }

#[derive(Clone, Debug)]
struct Txt(String);
// Checker / stamp values as plain strings (ValueObj = Clone + Debug + 'static).
fn chk(i: u8) -> String { format!("chk{}", i % 3) }
fn stp(i: u8) -> String { format!("stamp{}", i % 3) }

#[derive(Debug)]
struct Inc(u8);
#[derive(Debug)]
struct Er(String);
impl std::fmt::Display for Er { fn fmt(&self, f: &mut std::fmt::Formatter<'_>) -> std::fmt::Result { write!(f, "{}", self.0) } }
impl std::error::Error for Er {}

/// Applies call `c` to tracker `t`; returns the event the reference stream records.
fn apply<T: Tracker>(t: &mut T, c: &Call) -> Ev {
  let task = Tk(c.a % 3);
  let res = VRes(c.a % 3);
  let ck = chk(c.b);
  let st = stp(c.c);
  let out = num_out(c.c);
  let inc = Inc(c.c);
  let err = Er("e".into());
  let dbg_ck = format!("{:?}", ck);
  let dbg_st = format!("{:?}", st);
  match c.method % 23 {
    0 => { t.build_start(); Ev::BuildStart }
    1 => { t.build_end(); Ev::BuildEnd }
    2 => { t.require_start(&task, &ck); Ev::RequireStart { t: task.0, chk: dbg_ck } }
    3 => { t.require_end(&task, &ck, &st, &out); Ev::RequireEnd { t: task.0, chk: dbg_ck, stamp: dbg_st, out } }
    4 => { t.read_start(&res, &ck); Ev::ReadStart { r: res.0, chk: dbg_ck } }
    5 => { t.read_end(&res, &ck, &st); Ev::ReadEnd { r: res.0, chk: dbg_ck, stamp: dbg_st } }
    6 => { t.write_start(&res, &ck); Ev::WriteStart { r: res.0, chk: dbg_ck } }
    7 => { t.write_end(&res, &ck, &st); Ev::WriteEnd { r: res.0, chk: dbg_ck, stamp: dbg_st } }
    8 => { t.check_task_start(&task, &ck, &st); Ev::CheckTaskStart { t: task.0, chk: dbg_ck, stamp: dbg_st } }
    9 => { let i = c.c % 2 == 0; t.check_task_end(&task, &ck, &st, if i { Some(&inc) } else { None }); Ev::CheckTaskEnd { t: task.0, chk: dbg_ck, stamp: dbg_st, inconsistent: i } }
    10 => { t.check_resource_start(&res, &ck, &st); Ev::CheckResStart { r: res.0, chk: dbg_ck, stamp: dbg_st } }
    11 => {
      let v = match c.c % 3 { 0 => Verdict::Consistent, 1 => Verdict::Inconsistent, _ => Verdict::Error };
      match v { Verdict::Consistent => t.check_resource_end(&res, &ck, &st, Ok(None)), Verdict::Inconsistent => t.check_resource_end(&res, &ck, &st, Ok(Some(&inc))), Verdict::Error => t.check_resource_end(&res, &ck, &st, Err(&err)) }
      Ev::CheckResEnd { r: res.0, chk: dbg_ck, stamp: dbg_st, verdict: v }
    }
    12 => { t.execute_start(&task); Ev::ExecStart { t: task.0 } }
    13 => { t.execute_end(&task, &out); Ev::ExecEnd { t: task.0, out } }
    14 => { t.schedule_affected_by_task_start(&task); Ev::SchedByTaskStart { t: task.0 } }
    15 => { t.check_task_require_task_start(&task, &ck, &st); Ev::CheckReqStart { t: task.0, chk: dbg_ck, stamp: dbg_st } }
    16 => { let i = c.c % 2 == 0; t.check_task_require_task_end(&task, &ck, &st, if i { Some(&inc) } else { None }); Ev::CheckReqEnd { t: task.0, chk: dbg_ck, stamp: dbg_st, inconsistent: i } }
    17 => { t.schedule_affected_by_task_end(&task); Ev::SchedByTaskEnd { t: task.0 } }
    18 => { t.schedule_affected_by_resource_start(&res); Ev::SchedByResStart { r: res.0 } }
    19 => { t.check_task_read_resource_start(&task, &ck, &st); Ev::CheckReadStart { t: task.0, chk: dbg_ck, stamp: dbg_st } }
    20 => {
      let v = match c.c % 3 { 0 => Verdict::Consistent, 1 => Verdict::Inconsistent, _ => Verdict::Error };
      match v { Verdict::Consistent => t.check_task_read_resource_end(&task, &ck, &st, Ok(None)), Verdict::Inconsistent => t.check_task_read_resource_end(&task, &ck, &st, Ok(Some(&inc))), Verdict::Error => t.check_task_read_resource_end(&task, &ck, &st, Err(&err)) }
      Ev::CheckReadEnd { t: task.0, chk: dbg_ck, stamp: dbg_st, verdict: v }
    }
    21 => { t.schedule_affected_by_resource_end(&res); Ev::SchedByResEnd { r: res.0 } }
    _ => { t.schedule_task(&task); Ev::Schedule { t: task.0 } }
  }
}

/// The ten kinds EventTracker stores, as (kind, subject id) for reference implementations.
#[derive(Clone, Debug, PartialEq)]
enum K { BuildStart, BuildEnd, RequireStart(u8), RequireEnd(u8), ReadStart(u8), ReadEnd(u8), WriteStart(u8), WriteEnd(u8), ExecStart(u8), ExecEnd(u8) }

fn kinds(events: &[Ev]) -> Vec<K> {
  let mut out = vec![];
  for e in events {
    match e {
      Ev::BuildStart => { out.clear(); out.push(K::BuildStart); }
      Ev::BuildEnd => out.push(K::BuildEnd),
      Ev::RequireStart { t, .. } => out.push(K::RequireStart(*t)),
      Ev::RequireEnd { t, .. } => out.push(K::RequireEnd(*t)),
      Ev::ReadStart { r, .. } => out.push(K::ReadStart(*r)),
      Ev::ReadEnd { r, .. } => out.push(K::ReadEnd(*r)),
      Ev::WriteStart { r, .. } => out.push(K::WriteStart(*r)),
      Ev::WriteEnd { r, .. } => out.push(K::WriteEnd(*r)),
      Ev::ExecStart { t } => out.push(K::ExecStart(*t)),
      Ev::ExecEnd { t, .. } => out.push(K::ExecEnd(*t)),
      _ => {}
    }
  }
  out
}

pub fn check(case: &TCase, stats: &mut Stats) -> CheckResult {
  interp::install(Rc::new(Program::default()));
  let mut comp = CompositeTracker(Rec { stream: 1 }, CompositeTracker(Rec { stream: 2 }, EventTracker::default()));
  let mut reference: Vec<Ev> = vec![];
  for c in &case.calls { reference.push(apply(&mut comp, c)); }
  let cx = interp::uninstall().expect("cx");
  let s1 = cx.streams.get(&1).cloned().unwrap_or_default();
  let s2 = cx.streams.get(&2).cloned().unwrap_or_default();
  if s1 != reference || s2 != reference {
    let i = (0..reference.len()).find(|i| s1.get(*i) != reference.get(*i) || s2.get(*i) != reference.get(*i)).unwrap_or(reference.len());
    return Err(Failure::new(format!("CompositeTracker: call #{} {:?} reached the children as {:?} / {:?} (stream lengths {} / {} of {})", i, reference.get(i), s1.get(i), s2.get(i), s1.len(), s2.len(), reference.len())));
  }
  let et: &EventTracker = &comp.1.1;
  let want = event_tracker_projection(&reference);
  let got: Vec<String> = et.slice().iter().map(|e| format!("{:?}", e)).collect();
  // The projection prints checker/stamp/output through Debug of the recorded strings, which is what EventTracker stores.
  if got != want {
    let i = (0..want.len().max(got.len())).find(|i| got.get(*i) != want.get(*i)).unwrap_or(0);
    return Err(Failure::new(format!("EventTracker stored {:?} at position {} but was given {:?} (lengths {} vs {})", got.get(i), i, want.get(i), got.len(), want.len())));
  }
  let ks = kinds(&reference);
  let kinds_seen: std::collections::BTreeSet<u8> = ks.iter().map(|k| match k { K::BuildStart => 0, K::BuildEnd => 1, K::RequireStart(_) => 2, K::RequireEnd(_) => 3, K::ReadStart(_) => 4, K::ReadEnd(_) => 5, K::WriteStart(_) => 6, K::WriteEnd(_) => 7, K::ExecStart(_) => 8, K::ExecEnd(_) => 9 }).collect();
  if kinds_seen.len() == 10 { stats.nontrivial(fingerprint(case)); stats.sample(|| json!(format!("{:?}", ks))); stats.class("stored_stream_with_all_ten_event_kinds"); }
  stats.add("helper_evaluations", 0);
  let task = Tk(case.probe_task % 3);
  let res = VRes(case.probe_res % 3);
  let tk: &dyn KeyObj = &task;
  let rk: &dyn KeyObj = &res;
  let (tid, rid) = (task.0, res.0);
  let fail = |what: &str, got: String, want: String| Err(Failure::new(format!("{} = {} but the stored events {:?} say {}", what, got, ks, want)));
  // Per-event helpers.
  for (i, (e, k)) in et.slice().iter().zip(ks.iter()).enumerate() {
    let checks: Vec<(&str, bool, bool)> = vec![
      ("is_build_start", e.is_build_start(), *k == K::BuildStart),
      ("is_build_end", e.is_build_end(), *k == K::BuildEnd),
      ("match_require_start", e.match_require_start(tk).is_some(), *k == K::RequireStart(tid)),
      ("match_require_end", e.match_require_end(tk).is_some(), *k == K::RequireEnd(tid)),
      ("match_read_start", e.match_read_start(rk).is_some(), *k == K::ReadStart(rid)),
      ("match_read_end", e.match_read_end(rk).is_some(), *k == K::ReadEnd(rid)),
      ("match_write_start", e.match_write_start(rk).is_some(), *k == K::WriteStart(rid)),
      ("match_write_end", e.match_write_end(rk).is_some(), *k == K::WriteEnd(rid)),
      ("is_execute", e.is_execute(), matches!(k, K::ExecStart(_) | K::ExecEnd(_))),
      ("is_execute_of", e.is_execute_of(tk), *k == K::ExecStart(tid) || *k == K::ExecEnd(tid)),
      ("match_execute_start", e.match_execute_start(tk).is_some(), *k == K::ExecStart(tid)),
      ("match_execute_end", e.match_execute_end(tk).is_some(), *k == K::ExecEnd(tid)),
    ];
    for (name, got, want) in checks {
      if got != want { return Err(Failure::new(format!("Event::{}(subject {}/{}) on stored event #{} {:?} = {}, expected {}", name, tid, rid, i, k, got, want))); }
    }
  }
  // Tracker-level helpers.
  let pos = |p: &dyn Fn(&K) -> bool| ks.iter().position(|k| p(k));
  let first_pair = |s: &dyn Fn(&K) -> bool, e: &dyn Fn(&K) -> bool| -> Option<(usize, usize)> { pos(s).zip(pos(e)) };
  let rng = |x: Option<std::ops::RangeInclusive<usize>>| x.map(|r| (*r.start(), *r.end()));
  let req = first_pair(&|k| *k == K::RequireStart(tid), &|k| *k == K::RequireEnd(tid));
  if et.first_require(tk).map(|(s, e)| (s.index, e.index)) != req { return fail("first_require", format!("{:?}", et.first_require(tk).map(|(s, e)| (s.index, e.index))), format!("{:?}", req)); }
  if rng(et.first_require_range(tk)) != req { return fail("first_require_range", format!("{:?}", et.first_require_range(tk)), format!("{:?}", req)); }
  let rd = first_pair(&|k| *k == K::ReadStart(rid), &|k| *k == K::ReadEnd(rid));
  if et.first_read(rk).map(|(s, e)| (s.index, e.index)) != rd { return fail("first_read", format!("{:?}", et.first_read(rk).map(|(s, e)| (s.index, e.index))), format!("{:?}", rd)); }
  if rng(et.first_read_range(rk)) != rd { return fail("first_read_range", format!("{:?}", et.first_read_range(rk)), format!("{:?}", rd)); }
  let rde = pos(&|k| *k == K::ReadEnd(rid));
  if et.first_read_end(rk).map(|d| d.index) != rde { return fail("first_read_end", format!("{:?}", et.first_read_end(rk).map(|d| d.index)), format!("{:?}", rde)); }
  if et.first_read_end_index(rk).copied() != rde { return fail("first_read_end_index", format!("{:?}", et.first_read_end_index(rk)), format!("{:?}", rde)); }
  let wr = first_pair(&|k| *k == K::WriteStart(rid), &|k| *k == K::WriteEnd(rid));
  if et.first_write(rk).map(|(s, e)| (s.index, e.index)) != wr { return fail("first_write", format!("{:?}", et.first_write(rk).map(|(s, e)| (s.index, e.index))), format!("{:?}", wr)); }
  if rng(et.first_write_range(rk)) != wr { return fail("first_write_range", format!("{:?}", et.first_write_range(rk)), format!("{:?}", wr)); }
  let wre = pos(&|k| *k == K::WriteEnd(rid));
  if et.first_write_end(rk).map(|d| d.index) != wre { return fail("first_write_end", format!("{:?}", et.first_write_end(rk).map(|d| d.index)), format!("{:?}", wre)); }
  if et.first_write_end_index(rk).copied() != wre { return fail("first_write_end_index", format!("{:?}", et.first_write_end_index(rk)), format!("{:?}", wre)); }
  let any_exec = ks.iter().any(|k| matches!(k, K::ExecStart(_) | K::ExecEnd(_)));
  if et.any_execute() != any_exec { return fail("any_execute", format!("{}", et.any_execute()), format!("{}", any_exec)); }
  let any_of = ks.iter().any(|k| *k == K::ExecStart(tid) || *k == K::ExecEnd(tid));
  if et.any_execute_of(tk) != any_of { return fail("any_execute_of", format!("{}", et.any_execute_of(tk)), format!("{}", any_of)); }
  let one_of = ks.iter().filter(|k| **k == K::ExecStart(tid)).count() == 1;
  if et.one_execute_of(tk) != one_of { return fail("one_execute_of", format!("{}", et.one_execute_of(tk)), format!("{}", one_of)); }
  let ex = first_pair(&|k| *k == K::ExecStart(tid), &|k| *k == K::ExecEnd(tid));
  if et.first_execute(tk).map(|(s, e)| (s.index, e.index)) != ex { return fail("first_execute", format!("{:?}", et.first_execute(tk).map(|(s, e)| (s.index, e.index))), format!("{:?}", ex)); }
  if rng(et.first_execute_range(tk)) != ex { return fail("first_execute_range", format!("{:?}", et.first_execute_range(tk)), format!("{:?}", ex)); }
  let exe = pos(&|k| *k == K::ExecEnd(tid));
  if et.first_execute_end(tk).map(|d| d.index) != exe { return fail("first_execute_end", format!("{:?}", et.first_execute_end(tk).map(|d| d.index)), format!("{:?}", exe)); }
  if et.first_execute_end_index(tk).copied() != exe { return fail("first_execute_end_index", format!("{:?}", et.first_execute_end_index(tk)), format!("{:?}", exe)); }
  // any / one / find_map / iter with the build-end predicate (exercises is_build_end through the generic helpers).
  let n_end = ks.iter().filter(|k| **k == K::BuildEnd).count();
  if et.any(|e| e.is_build_end()) != (n_end > 0) { return fail("any(is_build_end)", format!("{}", et.any(|e| e.is_build_end())), format!("{}", n_end > 0)); }
  if et.one(|e| e.is_build_end()) != (n_end == 1) { return fail("one(is_build_end)", format!("{}", et.one(|e| e.is_build_end())), format!("{}", n_end == 1)); }
  let n_start = ks.iter().filter(|k| **k == K::BuildStart).count();
  if et.one(|e| e.is_build_start()) != (n_start == 1) { return fail("one(is_build_start)", format!("{}", et.one(|e| e.is_build_start())), format!("{}", n_start == 1)); }
  if et.iter().count() != ks.len() { return fail("iter().count()", format!("{}", et.iter().count()), format!("{}", ks.len())); }
  let fm = et.find_map(|e| e.match_execute_start(tk)).map(|d| d.index);
  if fm != pos(&|k| *k == K::ExecStart(tid)) { return fail("find_map(match_execute_start)", format!("{:?}", fm), format!("{:?}", pos(&|k| *k == K::ExecStart(tid)))); }
  let _ = (Txt(String::new()), Event::BuildStart);
  Ok(())
}

pub fn strategy(max: usize) -> impl Strategy<Value=TCase> {
  (proptest::collection::vec((0u8..23, 0u8..3, 0u8..3, 0u8..8).prop_map(|(method, a, b, c)| Call { method, a, b, c }), 0..=max), 0u8..3, 0u8..3)
    .prop_map(|(calls, probe_task, probe_res)| TCase { calls, probe_task, probe_res })
}

pub fn replay(path: &Path) -> Result<CheckResult, String> {
  let (_, _, c): (_, _, TCase) = driver::load_replay(path)?;
  Ok(driver::guarded(|| check(&c, &mut Stats::dummy())))
}
