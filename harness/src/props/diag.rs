//! Programs with one *state-dependent* violation (a hidden dependency, an overlapping write or a cycle that exists only
//! while a source resource has particular values), used by two properties:
//!
//! * C19 (label `diag`): builds abort with a diagnosed violation, the cause is or is not removed, and further sessions
//!   follow on the same instance. Every later top-down build must return the from-scratch result for the then-current
//!   state, or abort again for a violation that a from-scratch build of all known tasks confirms; never an internal error.
//! * C20 (label `guarded`): such programs change roles between states; an abort is legitimate only if a from-scratch
//!   build of all known tasks in the current state aborts as well (same oracle as the role-changing programs).
//!
//! Spurious aborts through an edge that a not-yet-validated task recorded in an earlier state are the recorded findings
//! C20-F1..F4; for C19 the same root cause is listed once as C19-F2.

use std::collections::BTreeSet;

use proptest::strategy::Strategy;

use crate::analyze::{analyze, panic_kind, PanicKind};
use crate::driver::{fingerprint, CheckResult, Failure, Stats, Tier};
use crate::engine::{self, BuildKind, BuildResult, Opts};
use crate::gen::{self, GenCfg, InjectKind};
use crate::interp::{Ev, L};
use crate::lang::*;
use crate::model::Shadow;

use super::build::sample;
use super::roles::{judge_abort, AbortVerdict};

pub fn diag_cfg(t: Tier) -> GenCfg {
  let mut c = GenCfg::for_tier(t);
  c.max_steps = match t { Tier::Quick => 10, Tier::Thorough => 16 };
  c.panic_steps = true;
  c
}

pub fn guarded_cfg(t: Tier) -> GenCfg {
  let mut c = super::build::bu_cfg(t);
  c.bottom_up_weight = 2;
  c.max_steps = match t { Tier::Quick => 10, Tier::Thorough => 16 };
  c
}

pub fn strategy(cfg: GenCfg) -> proptest::strategy::BoxedStrategy<Case> { gen::injected_case_strategy(cfg, InjectKind::Guarded, 0).boxed() }

#[derive(Clone, Copy, PartialEq, Eq)]
pub enum Mode { C19, C20 }

/// Walks the run; `mode` selects which demands are made (see the module comment).
pub fn check(case: &Case, mode: Mode, stats: &mut Stats) -> CheckResult {
  let run = engine::run_case(case, &Opts::default());
  let an = if mode == Mode::C19 { Some(analyze(case, &run)) } else { None };
  let guard_src = match &case.inject { Some(Inject::Guarded { src, .. }) => Some(*src), _ => None };
  let kind_label = match &case.inject { Some(Inject::Guarded { kind, .. }) => kind.clone(), _ => "none".into() };
  let mut sh = Shadow::default();
  let mut aborts = 0u64;
  let mut diagnosed_confirmed = 0u64;
  let mut returned_after_abort = 0u64;
  let mut guard_changed_after_abort = false;
  let mut executed_after_diag = false;
  for (si, sess) in run.sessions.iter().enumerate() {
    if aborts > 0 { if let Some(g) = guard_src { if sess.changed_before.contains(&g) { guard_changed_after_abort = true; } } }
    let mut current: BTreeSet<TaskId> = BTreeSet::new();
    let mut session_aborted = false;
    for (bi, b) in sess.builds.iter().enumerate() {
      let mut stack_at_abort: Vec<TaskId> = vec![];
      for l in &run.log[b.log.clone()] {
        match l {
          L::E(Ev::RequireEnd { t, .. }) | L::E(Ev::CheckTaskEnd { t, .. }) | L::E(Ev::ExecEnd { t, .. }) => { current.insert(*t); }
          L::TEnter(_) => { if diagnosed_confirmed > 0 { executed_after_diag = true; } }
          L::Aborted => { stack_at_abort = sh.stack.clone(); }
          _ => {}
        }
        sh.feed(l);
      }
      match &b.result {
        BuildResult::Panic(msg) => {
          let kind = panic_kind(msg);
          match kind {
            PanicKind::Internal => return Err(Failure::new(format!("[{}-internal] session {} build {} ({:?}) after {} earlier abort(s) failed with an internal error: {}", if mode == Mode::C19 { "c19" } else { "c20" }, si, bi, b.kind, aborts, msg))),
            PanicKind::Injected | PanicKind::TaskPanic => {}
            _ => {
              match judge_abort(case, sess, bi, msg, &sh, &current, &stack_at_abort) {
                AbortVerdict::Confirmed => {
                  diagnosed_confirmed += 1;
                  stats.class("diagnosed_abort_confirmed_by_from_scratch_build");
                  if aborts > 0 { stats.class("abort_again_for_a_violation_that_still_exists"); }
                }
                AbortVerdict::Spurious { what, sig } => {
                  match mode {
                    Mode::C20 => {
                      return match sig {
                        Some(s) => { stats.class(s); Err(Failure::with_sig(what, s)) }
                        None => Err(Failure::new(what)),
                      };
                    }
                    // C19 speaks about builds *after* an abort: a spurious first abort is C20's subject.
                    Mode::C19 if aborts == 0 => { stats.class("first_abort_spurious_(judged_by_C20)"); }
                    Mode::C19 => {
                      let what = what.replace("[c20-spurious-abort]", "[c19-spurious-abort]");
                      if super::build::c19_f1_signature(&run, b, msg) {
                        stats.class("c19_f1_hidden_dependency_after_abort_cut_a_path");
                        return Err(Failure::with_sig(what, "C19-F1/hidden-write-after-aborted-intermediate"));
                      }
                      return match sig {
                        Some(s) => { stats.class(s); Err(Failure::with_sig(what, "C19-F2/spurious-abort-through-stale-edge")) }
                        None => Err(Failure::new(what)),
                      };
                    }
                  }
                }
              }
            }
          }
          aborts += 1;
          session_aborted = true;
          // C20 makes no claim about what follows an abort (that is C19's subject).
          if mode == Mode::C20 { stats.class("guarded_case_stopped_at_confirmed_abort"); return Ok(()); }
        }
        _ => {
          if aborts > 0 && !session_aborted && matches!(b.kind, BuildKind::TopDown(_) | BuildKind::Probe(_)) { returned_after_abort += 1; }
        }
      }
    }
    // C19: sessions without an abort that follow an abort must be sound (output, resources, no missed violation).
    if let (Mode::C19, Some(an)) = (mode, &an) {
      if aborts > 0 && !session_aborted {
        if let Some(f) = an.findings.iter().find(|f| f.session == si && ["c01-output", "c01-state", "missed-violation", "missed-task-panic"].contains(&f.tag)) {
          return Err(Failure::new(format!("[c19-unsound-after-abort] after {} abort(s): {}", aborts, f.msg)));
        }
      }
    }
  }
  stats.class(&format!("guarded_{}", kind_label));
  if diagnosed_confirmed > 0 { stats.class("case_with_diagnosed_abort"); }
  if diagnosed_confirmed > 0 && guard_changed_after_abort { stats.class("guard_source_changed_after_the_abort"); }
  if diagnosed_confirmed > 0 && returned_after_abort > 0 { stats.class("top_down_build_returned_after_diagnosed_abort"); }
  let nontrivial = match mode {
    Mode::C19 => diagnosed_confirmed > 0 && returned_after_abort > 0 && executed_after_diag,
    Mode::C20 => guard_src.map(|g| run.sessions.iter().any(|s| s.changed_before.contains(&g))).unwrap_or(false),
  };
  if nontrivial { stats.nontrivial(fingerprint(case)); sample(case, stats); }
  Ok(())
}
