//! One module per property (some share a module).

use std::path::Path;

use crate::driver::{CheckResult, Failure, Known, Report, Tier};

pub mod dagprops;
pub mod build;
pub mod inject;
pub mod roles;
pub mod diag;
pub mod checkers;
pub mod files;
pub mod maps;
pub mod identity;
pub mod trackerapi;

pub const ALL: &[&str] = &["C10", "C11"];

/// Runs the full check of `prop` and returns the process exit code.
pub fn run(prop: &str, tier: Tier, seed: u64) -> i32 {
  match prop {
    "C10" | "C11" => dagprops::run(prop, tier, seed),
    "C12" => checkers::run(tier, seed),
    "C13" => files::run(tier, seed),
    "C14" => maps::run(tier, seed),
    "C15" => identity::run(tier, seed),
    p if build::spec_of(p).is_some() => build::run(prop, tier, seed),
    _ => { eprintln!("unknown property {}", prop); 2 }
  }
}

/// Replays one replay file strictly (no known-finding attribution): Ok = the property holds on that case.
pub fn replay(path: &Path) -> Result<CheckResult, String> {
  let (prop, label) = crate::driver::replay_label(path).ok_or_else(|| format!("{}: not a replay file", path.display()))?;
  match prop.as_str() {
    "C10" | "C11" => dagprops::replay(&prop, &label, path),
    "C12" => checkers::replay(path),
    "C13" => files::replay(path),
    "C14" => maps::replay(path),
    "C15" => identity::replay(path),
    "C17" if label == "api" => trackerapi::replay(path),
    p if build::spec_of(p).is_some() => build::replay(&prop, &label, path),
    _ => Err(format!("unknown property {}", prop)),
  }
}

/// Shared prologue: regress/<prop>/*.json must pass; findings listed in known_findings.json are replayed and reported
/// as KNOWN-FINDING lines while they still fail with their recorded signature.
pub fn prologue(report: &mut Report, known: &Known) {
  for path in crate::driver::list_json(&format!("regress/{}", report.prop)) {
    report.replays_run += 1;
    match replay(&path) {
      Ok(Ok(())) => {}
      Ok(Err(f)) => {
        report.violations.push((path.display().to_string(), format!("regression replay fails: {}", f.msg)));
      }
      Err(e) => { eprintln!("warning: cannot replay {}: {}", path.display(), e); }
    }
  }
  for (sig, (id, what, replay_rel)) in &known.sigs {
    let path = crate::driver::verif_root().join(replay_rel);
    report.replays_run += 1;
    match replay(&path) {
      Ok(Err(Failure { sig: Some(s), .. })) if &s == sig => {
        report.known_lines.push(format!("KNOWN-FINDING: property={} {} {}", report.prop, id, what));
      }
      Ok(Err(f)) => {
        // The recorded replay fails in a way the finding does not describe: that is a different violation.
        report.violations.push((path.display().to_string(), format!("finding replay {} fails with a different signature {:?}: {}", id, f.sig, f.msg)));
      }
      Ok(Ok(())) => {}
      Err(e) => { eprintln!("warning: cannot replay finding {}: {}", id, e); }
    }
  }
}
