//! C13: file checkers detect exactly what they document; stamp routes agree; readers are left at the start; writers
//! create/truncate files and refuse directories. Real filesystem, modification times always set explicitly.

use std::fs;
use std::io::{Read, Write};
use std::path::{Path, PathBuf};

use filetime::FileTime;
use pie::resource::file::hash_checker::HashChecker;
use pie::resource::file::{ExistsChecker, ModifiedChecker};
use pie::{Context, Pie, Resource, ResourceChecker, Task};
use proptest::prelude::*;
use serde::{Deserialize, Serialize};
use serde_json::json;

use crate::driver::{self, fingerprint, CheckResult, Failure, Known, Report, SearchCfg, Stats, Tier};

#[derive(Clone, Debug, Serialize, Deserialize, PartialEq, Eq, Hash)]
pub enum PState {
  Absent,
  /// File of `len` bytes generated from `seed`.
  File { len: u32, seed: u8 },
  /// Directory with these entry names, created in this order.
  Dir { names: Vec<String> },
}

#[derive(Clone, Copy, Debug, Serialize, Deserialize, PartialEq, Eq, Hash)]
pub enum FCk { Exists, Modified, Hash }

#[derive(Clone, Debug, Serialize, Deserialize, PartialEq, Eq, Hash)]
pub struct FCase {
  pub s1: PState,
  pub s2: PState,
  /// When false, nothing at all is done between stamping and checking (s2 is ignored).
  pub touch: bool,
  pub ck: FCk,
  /// Modification times (seconds) set explicitly after establishing s1 / s2.
  pub t1: u32,
  pub t2: u32,
  /// Sub-second parts (index into NANOS) of the two modification times.
  #[serde(default)]
  pub n1: u8,
  #[serde(default)]
  pub n2: u8,
}

/// Sub-second parts used for explicitly set modification times (whole seconds, just above, middle, just below the next).
pub const NANOS: [u32; 5] = [0, 0, 1, 500_000_000, 999_999_999];
fn ft(sec: u32, n: u8) -> FileTime { FileTime::from_unix_time(1_600_000_000 + sec as i64, NANOS[n as usize % NANOS.len()]) }
/// The modification time the filesystem actually stored (granularity of this filesystem included).
fn stored_mtime(path: &Path) -> Option<(i64, u32)> { fs::metadata(path).ok().map(|m| { let t = FileTime::from_last_modification_time(&m); (t.unix_seconds(), t.nanoseconds()) }) }

fn content(len: u32, seed: u8) -> Vec<u8> {
  let mut x = (seed as u32).wrapping_mul(2654435761u32).wrapping_add(12345);
  (0..len).map(|_| { x = x.wrapping_mul(1664525).wrapping_add(1013904223); (x >> 24) as u8 }).collect()
}

/// Entry names are kept as strings over {a, b, c, U+00E8, U+00E9}; on disk the last two become the single bytes 0xE8 and
/// 0xE9, which are not valid UTF-8 (distinct names stay distinct, but only as raw bytes).
fn os_name(name: &str) -> std::ffi::OsString {
  use std::os::unix::ffi::OsStringExt;
  std::ffi::OsString::from_vec(name.chars().map(|c| match c { '\u{e8}' => 0xE8u8, '\u{e9}' => 0xE9u8, c => c as u8 }).collect())
}

fn clear(path: &Path) {
  if let Ok(m) = fs::symlink_metadata(path) {
    if m.is_dir() { let _ = fs::remove_dir_all(path); } else { let _ = fs::remove_file(path); }
  }
}

fn establish(path: &Path, s: &PState, mtime: FileTime) -> std::io::Result<()> {
  clear(path);
  match s {
    PState::Absent => {}
    PState::File { len, seed } => { fs::write(path, content(*len, *seed))?; }
    PState::Dir { names } => {
      fs::create_dir(path)?;
      for n in names {
        // A trailing '@' makes the entry a dangling symlink, a trailing '/' a subdirectory; the entry *name* is the rest.
        match n.chars().last() {
          Some('@') => { std::os::unix::fs::symlink("pv-no-such-target", path.join(os_name(entry_name(n))))?; }
          Some('/') => { fs::create_dir(path.join(os_name(entry_name(n))))?; }
          _ => { fs::write(path.join(os_name(n)), b"x")?; }
        }
      }
    }
  }
  if !matches!(s, PState::Absent) { filetime::set_file_mtime(path, mtime)?; }
  Ok(())
}

/// Entry name without the kind marker.
fn entry_name(n: &str) -> &str { n.strip_suffix('@').or_else(|| n.strip_suffix('/')).filter(|x| !x.is_empty()).unwrap_or(n) }

fn name_set(s: &PState) -> Option<std::collections::BTreeSet<String>> {
  if let PState::Dir { names } = s { Some(names.iter().map(|n| entry_name(n).to_string()).collect()) } else { None }
}

/// A task that reads a file through Context::read with the hash checker and returns its bytes.
#[derive(Clone, PartialEq, Eq, Hash, Debug)]
struct ReadAll(PathBuf);
impl Task for ReadAll {
  type Output = Result<Vec<u8>, String>;
  fn execute<C: Context>(&self, ctx: &mut C) -> Self::Output {
    let mut r = ctx.read(&self.0, HashChecker).map_err(|e| e.to_string())?;
    let mut buf = vec![];
    if let Some(f) = r.as_file() { f.read_to_end(&mut buf).map_err(|e| e.to_string())?; }
    Ok(buf)
  }
}

struct St(pie::Pie<()>);
impl St {
  fn state(&mut self) -> &mut impl pie::ResourceState<PathBuf> { self.0.resource_state_mut::<PathBuf>() }
}

fn stamps_and_check<C: ResourceChecker<PathBuf>>(c: &C, case: &FCase, path: &PathBuf, st: &mut St, stats: &mut Stats) -> CheckResult
where C::Stamp: PartialEq + std::fmt::Debug, C::Error: std::fmt::Debug {
  let io = |e: std::io::Error| Failure::new(format!("harness io error: {}", e));
  let dbg = |e: C::Error| Failure::new(format!("checker returned an error on a valid state: {:?}", e));
  // --- s1, established through the resource's own writer where possible (files), so that stamp_writer is exercised.
  if let PState::File { len, seed } = &case.s1 {
    // start from a different previous state to see truncation
    establish(path, &PState::File { len: len + 7, seed: seed.wrapping_add(1) }, ft(0, 0)).map_err(io)?;
    let mut w = path.write(st.state()).map_err(|e| Failure::new(format!("PathBuf::write on an existing file failed: {:?}", e)))?;
    let l0 = w.metadata().map_err(io)?.len();
    if l0 != 0 { return Err(Failure::new(format!("PathBuf::write did not truncate the existing file (length {} before writing)", l0))); }
    w.write_all(&content(*len, *seed)).map_err(io)?;
    w.flush().map_err(io)?;
    let s_w = c.stamp_writer(path, w).map_err(dbg)?;
    let s_p = c.stamp(path, st.state()).map_err(dbg)?;
    let mut rd = path.read(st.state()).map_err(|e| Failure::new(format!("read failed: {:?}", e)))?;
    let s_r = c.stamp_reader(path, &mut rd).map_err(dbg)?;
    if s_w != s_p || s_r != s_p {
      return Err(Failure::new(format!("stamp routes disagree on a just-written file of {} bytes: path {:?}, reader {:?}, writer {:?}", len, s_p, s_r, s_w)));
    }
    filetime::set_file_mtime(path, ft(case.t1, case.n1)).map_err(io)?;
    stats.class("stamp_writer_route_exercised");
  } else {
    establish(path, &case.s1, ft(case.t1, case.n1)).map_err(io)?;
    if matches!(case.s1, PState::Absent) {
      // Writing to an absent path creates the file; removing it again before stamp_writer must give the absent stamp.
      let w = path.write(st.state()).map_err(|e| Failure::new(format!("PathBuf::write on an absent path failed: {:?}", e)))?;
      if !path.is_file() { return Err(Failure::new("PathBuf::write on an absent path did not create a file".to_string())); }
      fs::remove_file(path).map_err(io)?;
      let s_w = c.stamp_writer(path, w).map_err(dbg)?;
      let s_p = c.stamp(path, st.state()).map_err(dbg)?;
      if s_w != s_p { return Err(Failure::new(format!("stamp routes disagree on a path removed after writing: path {:?}, writer {:?}", s_p, s_w))); }
    } else {
      // Directory: writing is refused and leaves it alone.
      let before: Vec<_> = fs::read_dir(path).map_err(io)?.filter_map(|e| e.ok()).map(|e| e.file_name()).collect();
      if path.write(st.state()).is_ok() { return Err(Failure::new("PathBuf::write succeeded on a directory".to_string())); }
      let after: Vec<_> = fs::read_dir(path).map_err(io)?.filter_map(|e| e.ok()).map(|e| e.file_name()).collect();
      if !path.is_dir() || before.len() != after.len() { return Err(Failure::new("PathBuf::write on a directory modified it".to_string())); }
      filetime::set_file_mtime(path, ft(case.t1, case.n1)).map_err(io)?;
    }
  }
  // --- stamps in s1
  let s_p = c.stamp(path, st.state()).map_err(dbg)?;
  let mut rd = path.read(st.state()).map_err(|e| Failure::new(format!("read failed: {:?}", e)))?;
  let s_r = c.stamp_reader(path, &mut rd).map_err(dbg)?;
  if s_r != s_p { return Err(Failure::new(format!("stamp from path {:?} and from a fresh reader {:?} differ in state {:?}", s_p, s_r, case.s1))); }
  // The reader is left at the start.
  if let PState::File { len, seed } = &case.s1 {
    let mut buf = vec![];
    rd.as_file().ok_or_else(|| Failure::new("reader of a file is not a file".to_string()))?.read_to_end(&mut buf).map_err(io)?;
    if buf != content(*len, *seed) { return Err(Failure::new(format!("after stamp_reader the task reads {} bytes of a {} byte file (reader not left at the start)", buf.len(), len))); }
  }
  drop(rd);
  match c.check(path, st.state(), &s_p).map_err(dbg)? {
    None => {}
    Some(x) => return Err(Failure::new(format!("check against a fresh stamp reports an inconsistency {:?} although nothing was modified (state {:?})", x, case.s1))),
  }
  // --- move to s2
  if !case.touch {
    match c.check(path, st.state(), &s_p).map_err(dbg)? {
      None => return Ok(()),
      Some(x) => return Err(Failure::new(format!("untouched path reported inconsistent: {:?}", x))),
    }
  }
  let m1 = stored_mtime(path);
  establish(path, &case.s2, ft(case.t2, case.n2)).map_err(io)?;
  let m2 = stored_mtime(path);
  if m1.is_some() && m2.is_some() && m1 != m2 && m1.map(|x| x.0) == m2.map(|x| x.0) { stats.class("mtimes_differ_within_one_second"); }
  let got = c.check(path, st.state(), &s_p).map_err(dbg)?.is_some();
  let ex1 = !matches!(case.s1, PState::Absent);
  let ex2 = !matches!(case.s2, PState::Absent);
  let expected: Option<bool> = match case.ck {
    FCk::Exists => Some(ex1 != ex2),
    FCk::Modified => Some(ex1 != ex2 || (ex1 && ex2 && m1 != m2)),
    FCk::Hash => match (&case.s1, &case.s2) {
      (PState::Absent, PState::Absent) => Some(false),
      (PState::Absent, _) | (_, PState::Absent) => Some(true),
      (PState::File { len: l1, seed: s1 }, PState::File { len: l2, seed: s2 }) => Some(content(*l1, *s1) != content(*l2, *s2)),
      (PState::Dir { .. }, PState::Dir { .. }) => { if name_set(&case.s1) != name_set(&case.s2) { Some(true) } else { None } }
      _ => None, // change of kind between file and directory is not claimed
    },
  };
  if let Some(e) = expected {
    if e { stats.class("observed_aspect_differs"); }
    if got != e {
      return Err(Failure::new(format!("{:?}: stamped in {:?} (stored mtime {:?}), checked in {:?} (stored mtime {:?}): inconsistent={} but the observed aspect {}", case.ck, case.s1, m1, case.s2, m2, got, if e { "differs" } else { "is the same" })));
    }
  } else { stats.class("pair_without_claim"); }
  Ok(())
}

pub fn check(case: &FCase, stats: &mut Stats) -> CheckResult {
  let dir = tempfile::Builder::new().prefix("pv-c13-").tempdir().map_err(|e| Failure::new(format!("tempdir: {}", e)))?;
  let path = dir.path().join("p");
  let mut st = St(Pie::default());
  let big = |s: &PState| matches!(s, PState::File { len, .. } if *len >= 8192) || matches!(s, PState::Dir { names } if names.len() >= 2);
  let differs = case.touch && case.s1 != case.s2;
  if differs || big(&case.s1) { stats.nontrivial(fingerprint(case)); stats.sample(|| json!(format!("{:?}", case))); }
  if big(&case.s1) { stats.class("file>=8KiB_or_dir>=2_entries"); }
  let r = match case.ck {
    FCk::Exists => stamps_and_check(&ExistsChecker, case, &path, &mut st, stats),
    FCk::Modified => stamps_and_check(&ModifiedChecker, case, &path, &mut st, stats),
    FCk::Hash => stamps_and_check(&HashChecker, case, &path, &mut st, stats),
  };
  r?;
  // Through a real task: Context::read with the hash checker hands the task a reader positioned at the start.
  if let PState::File { len, seed } = &case.s1 {
    if establish(&path, &case.s1, ft(case.t1, case.n1)).is_ok() {
      let mut pie = Pie::default();
      let out = pie.new_session().require(&ReadAll(path.clone()));
      match out {
        Ok(bytes) => { if bytes != content(*len, *seed) { return Err(Failure::new(format!("a task reading a {} byte file through Context::read(HashChecker) received {} bytes", len, bytes.len()))); } }
        Err(e) => return Err(Failure::new(format!("task read failed: {}", e))),
      }
      stats.class("read_through_task");
    }
  }
  Ok(())
}

fn name() -> impl Strategy<Value=String> {
  proptest::collection::vec(prop_oneof![6 => 0u8..3, 1 => 3u8..5], 1..=3).prop_map(|v| v.into_iter().map(|b| match b { 3 => '\u{e8}', 4 => '\u{e9}', b => (b'a' + b) as char }).collect::<String>())
    .prop_flat_map(|n| prop_oneof![6 => Just(n.clone()), 1 => Just(format!("{}@", n)), 1 => Just(format!("{}/", n))])
}

fn pstate() -> impl Strategy<Value=PState> {
  prop_oneof![
    2 => Just(PState::Absent),
    5 => (prop_oneof![Just(0u32), Just(1), Just(8191), Just(8192), Just(8193), Just(16384), Just(65537), 0u32..30_000], 0u8..4).prop_map(|(len, seed)| PState::File { len, seed }),
    5 => proptest::collection::vec(name(), 0..=4).prop_map(|mut names| { let mut seen = std::collections::BTreeSet::new(); names.retain(|n| seen.insert(entry_name(n).to_string())); PState::Dir { names } }),
  ]
}

/// A directory listing derived from another by merging two names into one or splitting one name in two: a different
/// name set whose concatenation can coincide with the original's.
fn resplit(names: &[String], sel: u16, rev: bool) -> Vec<String> {
  // Work on the entry names proper (kind markers dropped: a '/' may only ever be a trailing marker).
  let mut v: Vec<String> = names.iter().map(|n| entry_name(n).to_string()).collect();
  if v.len() >= 2 && sel % 2 == 0 {
    let i = (sel as usize / 2) % v.len();
    let a = v.remove(i);
    let j = (sel as usize / 7) % v.len();
    let b = v.remove(j);
    v.push(if rev { format!("{}{}", b, a) } else { format!("{}{}", a, b) });
  } else if let Some(i) = v.iter().position(|n| n.chars().count() >= 2) {
    let n: Vec<char> = v.remove(i).chars().collect();
    let cut = 1 + (sel as usize / 3) % (n.len() - 1);
    v.push(n[..cut].iter().collect());
    v.push(n[cut..].iter().collect());
  }
  let mut seen = std::collections::BTreeSet::new();
  v.retain(|n| seen.insert(entry_name(n).to_string()));
  v
}

/// A listing that differs from `names` in exactly one character of one name, replaced by its sibling (a->b->c->a,
/// 0xE8<->0xE9): a different name set that is as close to the original as a listing can be.
fn near_miss(names: &[String], sel: u16) -> Vec<String> {
  let mut v: Vec<String> = names.to_vec();
  if v.is_empty() { return v; }
  // Prefer a name that contains one of the non-UTF-8 bytes.
  let i = v.iter().position(|n| n.contains('\u{e8}') || n.contains('\u{e9}')).filter(|_| sel % 3 != 0).unwrap_or((sel as usize / 3) % v.len());
  let kind = v[i].chars().last().filter(|c| *c == '@' || *c == '/');
  let mut cs: Vec<char> = entry_name(&v[i]).chars().collect();
  let j = cs.iter().position(|c| *c == '\u{e8}' || *c == '\u{e9}').unwrap_or((sel as usize / 5) % cs.len().max(1));
  if let Some(c) = cs.get_mut(j) { *c = match *c { 'a' => 'b', 'b' => 'c', 'c' => 'a', '\u{e8}' => '\u{e9}', '\u{e9}' => '\u{e8}', x => x }; }
  let mut n: String = cs.into_iter().collect();
  if let Some(k) = kind { n.push(k); }
  v[i] = n;
  let mut seen = std::collections::BTreeSet::new();
  v.retain(|n| seen.insert(entry_name(n).to_string()));
  v
}

pub fn strategy() -> impl Strategy<Value=FCase> {
  (pstate(), pstate(), 0u32..10, prop_oneof![Just(FCk::Exists), Just(FCk::Modified), Just(FCk::Modified), Just(FCk::Hash), Just(FCk::Hash)], 0u32..3, 0u32..3, any::<u16>(), any::<bool>(), 0u8..4, (0u8..5, 0u8..5))
    .prop_map(|(s1, s2, touch, ck, t1, t2, sel, rev, derive, (n1, n2))| {
      // A quarter of the directory cases check a re-split listing against the original.
      let s2 = match (&s1, derive) {
        (PState::Dir { names }, 0) if !names.is_empty() => PState::Dir { names: if sel % 2 == 0 { resplit(names, sel / 2, rev) } else { near_miss(names, sel / 2) } },
        // A quarter of the file cases change the content but not the length (and, half of the time, not the mtime).
        (PState::File { len, seed }, 0) if *len > 0 => PState::File { len: *len, seed: seed.wrapping_add(1 + (sel % 3) as u8) % 4 },
        _ => s2,
      };
      let t2 = if derive == 0 && rev { t1 } else { t2 };
      // Half of the modified-time cases stay within one second (sub-second parts differ or not).
      let t2 = if ck == FCk::Modified && sel % 2 == 1 { t1 } else { t2 };
      let n2 = if derive == 0 && rev && ck != FCk::Modified { n1 } else { n2 };
      FCase { s1, s2, touch: touch > 0, ck, t1, t2, n1, n2 }
    })
}

// ---------------------------------------------------------------------------------------------------------------------
// Sequences: one path walked through several states on ONE Pie instance (one resource state), stamps taken in every
// state through rotating routes, and every earlier stamp checked in every later state.

#[derive(Clone, Debug, Serialize, Deserialize, PartialEq, Eq, Hash)]
pub struct FStep {
  /// `None` = leave the path untouched in this step.
  pub to: Option<PState>,
  pub mtime: u32,
  #[serde(default)]
  pub nanos: u8,
  /// Checks made before stamping in this step (0..3 repeated checks of older stamps exercise caching of results).
  pub rechecks: u8,
}

#[derive(Clone, Debug, Serialize, Deserialize, PartialEq, Eq, Hash)]
pub struct FSeq { pub ck: FCk, pub steps: Vec<FStep> }

type Snap = (PState, Option<(i64, u32)>, usize);
fn aspect_differs(ck: FCk, a: &Snap, b: &Snap) -> Option<bool> {
  let ex1 = !matches!(a.0, PState::Absent);
  let ex2 = !matches!(b.0, PState::Absent);
  match ck {
    FCk::Exists => Some(ex1 != ex2),
    FCk::Modified => Some(ex1 != ex2 || (ex1 && ex2 && a.1 != b.1)),
    FCk::Hash => match (&a.0, &b.0) {
      (PState::Absent, PState::Absent) => Some(false),
      (PState::Absent, _) | (_, PState::Absent) => Some(true),
      (PState::File { len: l1, seed: s1 }, PState::File { len: l2, seed: s2 }) => Some(content(*l1, *s1) != content(*l2, *s2)),
      (PState::Dir { .. }, PState::Dir { .. }) => { if name_set(&a.0) != name_set(&b.0) { Some(true) } else if a.2 == b.2 { Some(false) } else { None } }
      _ => None,
    },
  }
}

fn seq_with<C: ResourceChecker<PathBuf>>(c: &C, seq: &FSeq, path: &PathBuf, st: &mut St, stats: &mut Stats) -> CheckResult
where C::Stamp: PartialEq + std::fmt::Debug, C::Error: std::fmt::Debug {
  let io = |e: std::io::Error| Failure::new(format!("harness io error: {}", e));
  let dbg = |e: C::Error| Failure::new(format!("checker returned an error on a valid state: {:?}", e));
  // (state, mtime, generation) at the time each stamp was taken
  let mut stamps: Vec<(Snap, C::Stamp)> = vec![];
  let mut cur: Snap = (PState::Absent, None, 0);
  clear(path);
  for (j, step) in seq.steps.iter().enumerate() {
    let mut via_writer: Option<C::Stamp> = None;
    if let Some(to) = &step.to {
      match to {
        PState::File { len, seed } if j % 2 == 1 && !path.is_dir() => {
          // through the resource's own writer
          let mut w = path.write(st.state()).map_err(|e| Failure::new(format!("PathBuf::write failed: {:?}", e)))?;
          w.write_all(&content(*len, *seed)).map_err(io)?;
          w.flush().map_err(io)?;
          filetime::set_file_mtime(path, ft(step.mtime, step.nanos)).map_err(io)?;
          via_writer = Some(c.stamp_writer(path, w).map_err(dbg)?);
        }
        other => establish(path, other, ft(step.mtime, step.nanos)).map_err(io)?,
      }
      cur = (to.clone(), stored_mtime(path), j + 1);
    }
    // Every earlier stamp, checked in the current state (repeatedly: results must not depend on earlier checks).
    for round in 0..=(step.rechecks % 3) as usize {
      for (i, (then, stamp)) in stamps.iter().enumerate() {
        let got = c.check(path, st.state(), stamp).map_err(dbg)?.is_some();
        match aspect_differs(seq.ck, then, &cur) {
          Some(e) => {
            if e { stats.class("seq_check_expected_inconsistent"); } else { stats.class("seq_check_expected_consistent"); }
            if got != e {
              return Err(Failure::new(format!("{:?} step {} (check round {}): stamp #{} taken in {:?} (mtime {:?}), path now {:?} (mtime {:?}): inconsistent={} but the observed aspect {}", seq.ck, j, round, i, then.0, then.1, cur.0, cur.1, got, if e { "differs" } else { "is the same" })));
            }
          }
          None => stats.class("seq_check_without_claim"),
        }
      }
    }
    // Stamp in the current state through all routes; they must agree.
    let s_p = c.stamp(path, st.state()).map_err(dbg)?;
    let mut rd = path.read(st.state()).map_err(|e| Failure::new(format!("read failed: {:?}", e)))?;
    let s_r = c.stamp_reader(path, &mut rd).map_err(dbg)?;
    drop(rd);
    if s_r != s_p { return Err(Failure::new(format!("step {}: stamp from path {:?} and from a fresh reader {:?} differ in state {:?}", j, s_p, s_r, cur.0))); }
    if let Some(s_w) = via_writer { if s_w != s_p { return Err(Failure::new(format!("step {}: stamp from the writer just used {:?} differs from the stamp from the path {:?} in state {:?}", j, s_w, s_p, cur.0))); } stats.class("seq_stamp_writer_route"); }
    stamps.push((cur.clone(), if j % 3 == 2 { s_r } else { s_p }));
  }
  Ok(())
}

pub fn check_seq(seq: &FSeq, stats: &mut Stats) -> CheckResult {
  let dir = tempfile::Builder::new().prefix("pv-c13s-").tempdir().map_err(|e| Failure::new(format!("tempdir: {}", e)))?;
  let path = dir.path().join("p");
  let mut st = St(Pie::default());
  let changes = seq.steps.iter().filter(|s| s.to.is_some()).count();
  if changes >= 2 { stats.nontrivial(fingerprint(seq)); stats.sample(|| json!(format!("{:?}", seq))); }
  match seq.ck {
    FCk::Exists => seq_with(&ExistsChecker, seq, &path, &mut st, stats),
    FCk::Modified => seq_with(&ModifiedChecker, seq, &path, &mut st, stats),
    FCk::Hash => seq_with(&HashChecker, seq, &path, &mut st, stats),
  }
}

pub fn seq_strategy() -> impl Strategy<Value=FSeq> {
  let step = (proptest::option::weighted(0.8, pstate()), 0u32..2, 0u8..5, 0u8..3, any::<u16>()).prop_map(|(to, mtime, nanos, rechecks, sel)| (FStep { to, mtime, nanos, rechecks }, sel));
  (prop_oneof![Just(FCk::Exists), Just(FCk::Modified), Just(FCk::Hash), Just(FCk::Hash)], proptest::collection::vec(step, 2..=6)).prop_map(|(ck, raw)| {
    // Bias: a file step is often followed by a same-length content change with the same mtime; a directory step by a re-split listing.
    let mut steps: Vec<FStep> = vec![];
    for (mut st, sel) in raw {
      if sel % 3 == 0 {
        if let Some(prev) = steps.iter().rev().find_map(|p| p.to.clone().map(|t| (t, (p.mtime, p.nanos)))) {
          match prev {
            (PState::File { len, seed }, mt) if len > 0 => { st.to = Some(PState::File { len, seed: (seed + 1 + (sel / 3 % 3) as u8) % 4 }); if sel % 2 == 0 { st.mtime = mt.0; st.nanos = mt.1; } }
            (PState::Dir { names }, _) if !names.is_empty() => { st.to = Some(PState::Dir { names: if sel % 2 == 0 { resplit(&names, sel / 3, sel % 4 == 0) } else { near_miss(&names, sel / 3) } }); }
            _ => {}
          }
        }
      }
      steps.push(st);
    }
    FSeq { ck, steps }
  })
}

pub fn replay(path: &Path) -> Result<CheckResult, String> {
  if driver::replay_label(path).map(|x| x.1 == "seq").unwrap_or(false) {
    let (_, _, c): (_, _, FSeq) = driver::load_replay(path)?;
    return Ok(driver::guarded(|| check_seq(&c, &mut Stats::dummy())));
  }
  let (_, _, c): (_, _, FCase) = driver::load_replay(path)?;
  Ok(driver::guarded(|| check(&c, &mut Stats::dummy())))
}

pub fn run(tier: Tier, seed: u64) -> i32 {
  let rule = "proptest-generated (state when stamped, state when checked, checker) over a real temp directory: states = absent / file of size 0,1,8191,8192,8193,16384,65537 or random <100k with pseudo-random bytes / directory whose entry names are drawn from strings of length 1-3 over {a,b,c} and the two non-UTF-8 bytes 0xE8/0xE9 (so concatenations collide and some names are not valid UTF-8), entries being regular files, subdirectories or dangling symbolic links; modification times set explicitly (filetime) with whole-second and sub-second parts (0, 1 ns, 0.5 s, 999999999 ns), equal, within one second or seconds apart (the expectation uses the times the filesystem actually stored); oracle: stamp(path) = stamp_reader(fresh reader) = stamp_writer(writer just used through Resource::write); check vs fresh stamp consistent; after stamp_reader the full content is readable (also through a task under Pie); after moving to the second state check is inconsistent iff the observed aspect differs (existence; existence or mtime; absent<->present, file content, directory name set - file<->directory and same names re-created are not asserted); PathBuf::write truncates/creates files and refuses directories; a quarter of the file pairs change the content but keep length (and often mtime). Second search: sequences of 2-6 steps (new state or leave untouched) on ONE Pie instance / resource state: in every step all earlier stamps are checked (1-3 rounds) against the current state with the same oracle, then the state is stamped through path, fresh reader and - for files written through Resource::write - the writer, which must agree; non-trivial = the two states differ, or file >= 8 KiB buffer, or directory with >=2 entries (pairs), >=2 state changes (sequences); distinct by case hash";
  let mut report = Report::new("C13", tier, seed, "exploration", rule);
  let known = Known::load("C13");
  super::prologue(&mut report, &known);
  let (shards, cases) = match tier { Tier::Quick => (16, 300), Tier::Thorough => (16, 5000) };
  let cfg = SearchCfg { prop: "C13", label: "pair", seed, shards, cases_per_shard: cases, max_shrink_iters: 400 };
  let (stats, found) = driver::search(&cfg, &known, strategy, |c, s| check(c, s), |c| format!("{:?}", c));
  report.absorb("pair", stats, found);
  let (shards, cases) = match tier { Tier::Quick => (16, 200), Tier::Thorough => (16, 3000) };
  let cfg = SearchCfg { prop: "C13", label: "seq", seed, shards, cases_per_shard: cases, max_shrink_iters: 400 };
  let (stats, found) = driver::search(&cfg, &known, seq_strategy, |c, s| check_seq(c, s), |c| format!("{:?}", c));
  report.absorb("seq", stats, found);
  report.assumptions = vec!["runs on the filesystem of the system temp dir of this sandbox; directory iteration order and timestamp granularity of other platforms are not explored".into(), "mtimes are set explicitly, never read from the clock".into()];
  report.finish()
}
