//! C12: built-in output checkers decide exactly their documented relation (trait route and object-safe proxy route).

use std::fmt::Debug;
use std::path::Path;

use pie::task::{AlwaysConsistent, EqualsChecker, ErrEqualsChecker, OkEqualsChecker, ResultChecker};
use pie::verif::OutputCheckerObj;
use pie::OutputChecker;
use proptest::prelude::*;
use serde::{Deserialize, Serialize};
use serde_json::json;

use crate::driver::{self, fingerprint, CheckResult, Failure, Known, Report, SearchCfg, Stats, Tier};

#[derive(Clone, Copy, Debug, Serialize, Deserialize, PartialEq, Eq, Hash)]
pub enum Ck { Equals, OkEquals, ErrEquals, ResultIs, Always }
pub const CKS: [Ck; 5] = [Ck::Equals, Ck::OkEquals, Ck::ErrEquals, Ck::ResultIs, Ck::Always];

/// Documented relation between two results under checker `c`.
pub fn rel<T: Eq, E: Eq>(c: Ck, a: &Result<T, E>, b: &Result<T, E>) -> bool {
  match c {
    Ck::Equals => a == b,
    Ck::OkEquals => match (a, b) { (Ok(x), Ok(y)) => x == y, (Err(_), Err(_)) => true, _ => false },
    Ck::ErrEquals => match (a, b) { (Err(x), Err(y)) => x == y, (Ok(_), Ok(_)) => true, _ => false },
    Ck::ResultIs => a.is_err() == b.is_err(),
    Ck::Always => true,
  }
}

fn both_routes<O: Clone + Debug + 'static, C: OutputChecker<O> + Copy>(c: C, o1: &O, o2: &O) -> (bool, bool) {
  let stamp = c.stamp(o1);
  let direct = c.check(o2, &stamp).is_none();
  let obj: &dyn OutputCheckerObj<O> = &c;
  let stamp_obj = obj.stamp_obj(o1);
  let via_obj = obj.check_obj(o2, stamp_obj.as_ref()).is_none();
  (direct, via_obj)
}

fn judge_result<T: Clone + Debug + Eq + 'static, E: Clone + Debug + Eq + 'static>(c: Ck, o1: &Result<T, E>, o2: &Result<T, E>) -> CheckResult {
  let (d, o) = match c {
    Ck::Equals => both_routes(EqualsChecker, o1, o2),
    Ck::OkEquals => both_routes(OkEqualsChecker, o1, o2),
    Ck::ErrEquals => both_routes(ErrEqualsChecker, o1, o2),
    Ck::ResultIs => both_routes(ResultChecker, o1, o2),
    Ck::Always => both_routes(AlwaysConsistent, o1, o2),
  };
  let want = rel(c, o1, o2);
  if d != want { return Err(Failure::new(format!("{:?}: check({:?}, stamp({:?})) consistent={} but the documented relation says {}", c, o2, o1, d, want))); }
  if o != want { return Err(Failure::new(format!("{:?} through OutputCheckerObj: check_obj({:?}, stamp_obj({:?})) consistent={} but the documented relation says {}", c, o2, o1, o, want))); }
  Ok(())
}

fn misc(c: Ck, sel: u8, a: u8, b: u8) -> CheckResult {
  fn both<T: Clone + Debug + Eq + 'static>(c: Ck, x: T, y: T, a: u8, b: u8) -> CheckResult {
    judge_equals(&x, &y)?;
    // ... and as Ok / Err payloads (which side is chosen by the low bit of the small values).
    let wrap = |v: &T, k: u8| -> Result<T, T> { if k % 2 == 0 { Ok(v.clone()) } else { Err(v.clone()) } };
    judge_result(c, &wrap(&x, a), &wrap(&y, b))
  }
  match sel % 8 {
    0 => both(c, ((a as i128) << 64) | 7, ((b as i128) << 64) | 7, a, b),
    1 => { let f = |v: u8| -> Option<Option<u8>> { match v % 3 { 0 => None, 1 => Some(None), _ => Some(Some(v)) } }; both(c, f(a), f(b), a, b) }
    2 => both(c, std::rc::Rc::new(a), std::rc::Rc::new(b), a, b),
    3 => { let e: [u8; 0] = []; both(c, e, e, a, b) }
    4 => { let f = |v: u8| -> &'static str { ["", "a", "b", "ab"][v as usize % 4] }; both(c, f(a), f(b), a, b) }
    5 => both(c, (b'a' + a % 3) as char, (b'a' + b % 3) as char, a, b),
    6 => both(c, (1u64 << 40, a as u64), (1u64 << 40, b as u64), a, b),
    _ => { let f = |v: u8| -> Option<Result<u8, ()>> { match v % 3 { 0 => None, 1 => Some(Err(())), _ => Some(Ok(v)) } }; both(c, f(a), f(b), a, b) }
  }
}

fn cow(borrowed: bool, s: &str) -> std::borrow::Cow<'static, str> {
  if borrowed { std::borrow::Cow::Borrowed(match s { "" => "", "a" => "a", "b" => "b", _ => "c" }) } else { std::borrow::Cow::Owned(match s { "" | "a" | "b" => s.to_string(), _ => "c".to_string() }) }
}

/// Spellings of three different paths (0-3 are equal as paths, 4-5 are equal, 6 differs from all).
const PATHS: [&str; 7] = ["a/b", "a/b/", "a//b", "a/./b", "a/c", "a/c/.", "a"];
fn path(i: u8) -> std::path::PathBuf { std::path::PathBuf::from(PATHS[i as usize % PATHS.len()]) }
fn path_res(r: &Result<u8, u8>) -> Result<std::path::PathBuf, std::path::PathBuf> { match r { Ok(i) => Ok(path(*i)), Err(i) => Err(path(*i)) } }
fn hset(v: &[u8]) -> std::collections::HashSet<u8> { v.iter().cloned().collect() }

fn judge_equals<O: Clone + Debug + Eq + 'static>(o1: &O, o2: &O) -> CheckResult {
  let (d, o) = both_routes(EqualsChecker, o1, o2);
  let want = o1 == o2;
  if d != want || o != want { return Err(Failure::new(format!("EqualsChecker on {:?} vs {:?}: consistent={}/{} (trait/object route) but equality says {}", o1, o2, d, o, want))); }
  let (d2, o2b) = both_routes(AlwaysConsistent, o1, o2);
  if !d2 || !o2b { return Err(Failure::new(format!("AlwaysConsistent reported an inconsistency for {:?} vs {:?}", o1, o2))); }
  Ok(())
}

/// A named zero-sized type (unit struct), as used for payload-free errors.
#[derive(Clone, Copy, Debug, Serialize, Deserialize, PartialEq, Eq, Hash, Default)]
pub struct Unit0;

/// Equality finer than the Debug text (a terse manual Debug omits a field that Eq compares).
#[derive(Clone, Copy, Serialize, Deserialize, PartialEq, Eq, Hash)]
pub struct Terse(pub u8, pub u8);
impl Debug for Terse { fn fmt(&self, f: &mut std::fmt::Formatter<'_>) -> std::fmt::Result { write!(f, "Terse({})", self.0) } }
/// Equality coarser than the Debug text (Eq ignores a field that Debug prints).
#[derive(Clone, Copy, Serialize, Deserialize, Debug)]
pub struct Loose(pub u8, pub u8);
impl PartialEq for Loose { fn eq(&self, o: &Self) -> bool { self.0 == o.0 } }
impl Eq for Loose {}
impl std::hash::Hash for Loose { fn hash<H: std::hash::Hasher>(&self, h: &mut H) { self.0.hash(h) } }

/// An enum whose equality looks through the variant (like `Cow::Borrowed(x) == Cow::Owned(x)`).
#[derive(Clone, Copy, Serialize, Deserialize, Debug)]
pub enum Var { A(u8), B(u8) }
impl Var { fn inner(&self) -> u8 { match self { Var::A(x) | Var::B(x) => *x } } }
impl PartialEq for Var { fn eq(&self, o: &Self) -> bool { self.inner() == o.inner() } }
impl Eq for Var {}
impl std::hash::Hash for Var { fn hash<H: std::hash::Hasher>(&self, h: &mut H) { self.inner().hash(h) } }

#[derive(Clone, Debug, Serialize, Deserialize, PartialEq, Eq, Hash)]
pub enum Pair {
  /// Enum payloads / outputs equal across variants; and the std type with that property.
  VarP(Ck, Result<Var, Var>, Result<Var, Var>),
  EqVar(Var, Var),
  EqCow(bool, String, bool, String),
  /// std types whose equality is not byte-wise: paths (component-wise) and hash sets (order-free).
  EqPath(u8, u8),
  PathP(Ck, Result<u8, u8>, Result<u8, u8>),
  EqSet(Vec<u8>, Vec<u8>),
  /// The single value of the zero-sized `Result<(), Infallible>` against itself.
  Inf(Ck),
  /// A grab bag of further output types for EqualsChecker / AlwaysConsistent and, wrapped in Result, the other checkers:
  /// selector 0 i128 differing only above bit 64, 1 nested options, 2 Rc<u8>, 3 empty array, 4 &'static str, 5 char,
  /// 6 (u64, u64), 7 Option<Result<u8, ()>>.
  Misc(Ck, u8, u8, u8),
  /// Payload types whose Debug text and Eq disagree (the relation is defined by Eq).
  TerseP(Ck, Result<Terse, Terse>, Result<Terse, Terse>),
  LooseP(Ck, Result<Loose, Loose>, Result<Loose, Loose>),
  EqTerse(Terse, Terse),
  EqLoose(Loose, Loose),
  /// Zero-sized payloads on the Err side, the Ok side, or both; and wide payloads (size-dependent code paths).
  ZErr(Ck, Result<u8, ()>, Result<u8, ()>),
  ZOk(Ck, Result<(), u8>, Result<(), u8>),
  ZBoth(Ck, Result<(), ()>, Result<(), ()>),
  ZNamed(Ck, Result<String, Unit0>, Result<String, Unit0>),
  ZNamedOk(Ck, Result<Unit0, String>, Result<Unit0, String>),
  Wide(Ck, Result<[u8; 24], u64>, Result<[u8; 24], u64>),
  EqUnit((), ()),
  EqNamedUnit(Unit0, Unit0),
  Small(Ck, Result<u8, u8>, Result<u8, u8>),
  Text(Ck, Result<String, String>, Result<String, String>),
  Mixed(Ck, Result<(u8, String), Vec<u8>>, Result<(u8, String), Vec<u8>>),
  EqOpt(Option<u8>, Option<u8>),
  EqTuple((u8, bool, String), (u8, bool, String)),
  EqVec(Vec<u16>, Vec<u16>),
}

pub fn check(p: &Pair, stats: &mut Stats) -> CheckResult {
  let (r, nontrivial) = match p {
    Pair::Small(c, a, b) => (judge_result(*c, a, b), rel(*c, a, b) != (a == b)),
    Pair::Text(c, a, b) => (judge_result(*c, a, b), rel(*c, a, b) != (a == b)),
    Pair::Mixed(c, a, b) => (judge_result(*c, a, b), rel(*c, a, b) != (a == b)),
    Pair::VarP(c, a, b) => { stats.class("enum_payload_equal_across_variants"); (judge_result(*c, a, b), true) }
    Pair::EqVar(a, b) => { stats.class("enum_payload_equal_across_variants"); (judge_equals(a, b), true) }
    Pair::EqCow(ba, a, bb, b) => { stats.class("enum_payload_equal_across_variants"); (judge_equals(&cow(*ba, a), &cow(*bb, b)), true) }
    Pair::EqPath(a, b) => { stats.class("std_type_with_non_bytewise_equality"); (judge_equals(&path(*a), &path(*b)), true) }
    Pair::PathP(c, a, b) => { stats.class("std_type_with_non_bytewise_equality"); (judge_result(*c, &path_res(a), &path_res(b)), true) }
    Pair::EqSet(a, b) => { stats.class("std_type_with_non_bytewise_equality"); (judge_equals(&hset(a), &hset(b)), true) }
    Pair::Inf(c) => { stats.class("zero_sized_result_type"); let v: Result<(), std::convert::Infallible> = Ok(()); (judge_result(*c, &v, &v), false) }
    Pair::Misc(c, sel, a, b) => { stats.class("misc_output_type"); (misc(*c, *sel, *a, *b), a != b) }
    Pair::TerseP(c, a, b) => { stats.class("payload_whose_debug_text_and_eq_disagree"); (judge_result(*c, a, b), true) }
    Pair::LooseP(c, a, b) => { stats.class("payload_whose_debug_text_and_eq_disagree"); (judge_result(*c, a, b), true) }
    Pair::EqTerse(a, b) => (judge_equals(a, b), a != b),
    Pair::EqLoose(a, b) => (judge_equals(a, b), a != b),
    Pair::ZErr(c, a, b) => (judge_result(*c, a, b), rel(*c, a, b) != (a == b)),
    Pair::ZOk(c, a, b) => (judge_result(*c, a, b), rel(*c, a, b) != (a == b)),
    Pair::ZBoth(c, a, b) => (judge_result(*c, a, b), rel(*c, a, b) != (a == b)),
    Pair::ZNamed(c, a, b) => (judge_result(*c, a, b), rel(*c, a, b) != (a == b)),
    Pair::ZNamedOk(c, a, b) => (judge_result(*c, a, b), rel(*c, a, b) != (a == b)),
    Pair::Wide(c, a, b) => (judge_result(*c, a, b), rel(*c, a, b) != (a == b)),
    Pair::EqUnit(a, b) => (judge_equals(a, b), false),
    Pair::EqNamedUnit(a, b) => (judge_equals(a, b), false),
    Pair::EqOpt(a, b) => (judge_equals(a, b), a != b),
    Pair::EqTuple(a, b) => (judge_equals(a, b), a != b),
    Pair::EqVec(a, b) => (judge_equals(a, b), a != b),
  };
  if matches!(p, Pair::ZErr(..) | Pair::ZOk(..) | Pair::ZBoth(..) | Pair::ZNamed(..) | Pair::ZNamedOk(..)) { stats.class("pair_with_zero_sized_payload_type"); }
  if nontrivial { stats.nontrivial(fingerprint(p)); stats.sample(|| json!(format!("{:?}", p))); stats.class("relation_differs_from_equality_or_unequal_pair"); }
  // Reflexivity as a separate assertion.
  let refl = match p {
    Pair::Small(c, a, _) => judge_result(*c, a, a),
    Pair::Text(c, a, _) => judge_result(*c, a, a),
    Pair::Mixed(c, a, _) => judge_result(*c, a, a),
    Pair::VarP(c, a, _) => judge_result(*c, a, a),
    Pair::EqVar(a, _) => judge_equals(a, a),
    Pair::EqCow(ba, a, _, _) => judge_equals(&cow(*ba, a), &cow(!*ba, a)),
    Pair::EqPath(a, _) => judge_equals(&path(*a), &path(*a)),
    Pair::PathP(c, a, _) => judge_result(*c, &path_res(a), &path_res(a)),
    Pair::EqSet(a, _) => { let mut r = a.clone(); r.reverse(); judge_equals(&hset(a), &hset(&r)) }
    Pair::Inf(c) => { let v: Result<(), std::convert::Infallible> = Ok(()); judge_result(*c, &v, &v) }
    Pair::Misc(c, sel, a, _) => misc(*c, *sel, *a, *a),
    Pair::TerseP(c, a, _) => judge_result(*c, a, a),
    Pair::LooseP(c, a, _) => judge_result(*c, a, a),
    Pair::EqTerse(a, _) => judge_equals(a, a),
    Pair::EqLoose(a, _) => judge_equals(a, a),
    Pair::ZErr(c, a, _) => judge_result(*c, a, a),
    Pair::ZOk(c, a, _) => judge_result(*c, a, a),
    Pair::ZBoth(c, a, _) => judge_result(*c, a, a),
    Pair::ZNamed(c, a, _) => judge_result(*c, a, a),
    Pair::ZNamedOk(c, a, _) => judge_result(*c, a, a),
    Pair::Wide(c, a, _) => judge_result(*c, a, a),
    Pair::EqUnit(a, _) => judge_equals(a, a),
    Pair::EqNamedUnit(a, _) => judge_equals(a, a),
    Pair::EqOpt(a, _) => judge_equals(a, a),
    Pair::EqTuple(a, _) => judge_equals(a, a),
    Pair::EqVec(a, _) => judge_equals(a, a),
  };
  r.and(refl)
}

fn ck() -> impl Strategy<Value=Ck> { (0usize..5).prop_map(|i| CKS[i]) }
fn small_str() -> impl Strategy<Value=String> { proptest::collection::vec(0u8..3, 0..3).prop_map(|v| v.into_iter().map(|b| (b'a' + b) as char).collect()) }
fn res<T: Debug + Clone + 'static, E: Debug + Clone + 'static>(t: impl Strategy<Value=T> + 'static, e: impl Strategy<Value=E> + 'static) -> impl Strategy<Value=Result<T, E>> {
  prop_oneof![t.prop_map(Ok), e.prop_map(Err)]
}

pub fn strategy() -> impl Strategy<Value=Pair> {
  fn wide() -> impl Strategy<Value=Result<[u8; 24], u64>> { res((0u8..3, 0usize..24).prop_map(|(v, i)| { let mut a = [0u8; 24]; a[i] = v; a }), prop_oneof![0u64..3, Just(1u64 << 40), Just(u64::MAX)]) }
  fn terse() -> impl Strategy<Value=Terse> { (0u8..2, 0u8..2).prop_map(|(a, b)| Terse(a, b)) }
  fn loose() -> impl Strategy<Value=Loose> { (0u8..2, 0u8..2).prop_map(|(a, b)| Loose(a, b)) }
  fn var() -> impl Strategy<Value=Var> { (any::<bool>(), 0u8..2).prop_map(|(v, x)| if v { Var::A(x) } else { Var::B(x) }) }
  fn tiny() -> impl Strategy<Value=String> { prop_oneof![Just(String::new()), Just("a".to_string()), Just("b".to_string())] }
  prop_oneof![
    3 => (ck(), 0u8..8, 0u8..6, 0u8..6).prop_map(|(c, sel, a, b)| Pair::Misc(c, sel, a, b)),
    1 => ck().prop_map(Pair::Inf),
    1 => (0u8..7, 0u8..7).prop_map(|(a, b)| Pair::EqPath(a, b)),
    2 => (ck(), res(0u8..7, 0u8..7), res(0u8..7, 0u8..7)).prop_map(|(c, a, b)| Pair::PathP(c, a, b)),
    1 => (proptest::collection::vec(0u8..4, 0..4), proptest::collection::vec(0u8..4, 0..4)).prop_map(|(a, b)| Pair::EqSet(a, b)),
    2 => (ck(), res(var(), var()), res(var(), var())).prop_map(|(c, a, b)| Pair::VarP(c, a, b)),
    1 => (var(), var()).prop_map(|(a, b)| Pair::EqVar(a, b)),
    1 => (any::<bool>(), tiny(), any::<bool>(), tiny()).prop_map(|(ba, a, bb, b)| Pair::EqCow(ba, a, bb, b)),
    2 => (ck(), res(terse(), terse()), res(terse(), terse())).prop_map(|(c, a, b)| Pair::TerseP(c, a, b)),
    2 => (ck(), res(loose(), loose()), res(loose(), loose())).prop_map(|(c, a, b)| Pair::LooseP(c, a, b)),
    1 => (terse(), terse()).prop_map(|(a, b)| Pair::EqTerse(a, b)),
    1 => (loose(), loose()).prop_map(|(a, b)| Pair::EqLoose(a, b)),
    1 => (ck(), res(0u8..3, Just(())), res(0u8..3, Just(()))).prop_map(|(c, a, b)| Pair::ZErr(c, a, b)),
    1 => (ck(), res(Just(()), 0u8..3), res(Just(()), 0u8..3)).prop_map(|(c, a, b)| Pair::ZOk(c, a, b)),
    1 => (ck(), res(Just(()), Just(())), res(Just(()), Just(()))).prop_map(|(c, a, b)| Pair::ZBoth(c, a, b)),
    1 => (ck(), res(small_str(), Just(Unit0)), res(small_str(), Just(Unit0))).prop_map(|(c, a, b)| Pair::ZNamed(c, a, b)),
    1 => (ck(), res(Just(Unit0), small_str()), res(Just(Unit0), small_str())).prop_map(|(c, a, b)| Pair::ZNamedOk(c, a, b)),
    2 => (ck(), wide(), wide()).prop_map(|(c, a, b)| Pair::Wide(c, a, b)),
    1 => Just(Pair::EqUnit((), ())),
    1 => Just(Pair::EqNamedUnit(Unit0, Unit0)),
    2 => (ck(), res(0u8..4, 0u8..4), res(0u8..4, 0u8..4)).prop_map(|(c, a, b)| Pair::Small(c, a, b)),
    3 => (ck(), res(small_str(), small_str()), res(small_str(), small_str())).prop_map(|(c, a, b)| Pair::Text(c, a, b)),
    3 => (ck(), res((0u8..3, small_str()), proptest::collection::vec(0u8..3, 0..3)), res((0u8..3, small_str()), proptest::collection::vec(0u8..3, 0..3))).prop_map(|(c, a, b)| Pair::Mixed(c, a, b)),
    1 => (proptest::option::of(0u8..3), proptest::option::of(0u8..3)).prop_map(|(a, b)| Pair::EqOpt(a, b)),
    1 => ((0u8..2, any::<bool>(), small_str()), (0u8..2, any::<bool>(), small_str())).prop_map(|(a, b)| Pair::EqTuple(a, b)),
    1 => (proptest::collection::vec(0u16..3, 0..3), proptest::collection::vec(0u16..3, 0..3)).prop_map(|(a, b)| Pair::EqVec(a, b)),
  ]
}

/// Small fixed batteries of pairs per type family; `battery(first)` runs them all in one fresh process, starting with family
/// `first` - state that a checker keeps per process (and that depends on which type or checker came first) shows up as a
/// battery that fails for one starting point only.
pub const N_FAMILIES: usize = 9;
fn family(i: usize) -> Vec<Pair> {
  let mut v = vec![];
  for c in CKS {
    match i % N_FAMILIES {
      0 => { for a in [Ok(()), Err(())] { for b in [Ok(()), Err(())] { v.push(Pair::ZBoth(c, a, b)); } } }
      1 => { for a in [Ok(0u8), Ok(1), Err(())] { for b in [Ok(0u8), Ok(1), Err(())] { v.push(Pair::ZErr(c, a, b)); } } }
      2 => { for a in [Ok(()), Err(0u8), Err(1)] { for b in [Ok(()), Err(0u8), Err(1)] { v.push(Pair::ZOk(c, a, b)); } } }
      3 => { for a in [Ok(0u8), Ok(1), Err(0), Err(1)] { for b in [Ok(0u8), Ok(1), Err(0), Err(1)] { v.push(Pair::Small(c, a, b)); } } }
      4 => { for a in [Ok("a".to_string()), Err("a".to_string()), Err("b".to_string())] { for b in [Ok("a".to_string()), Ok("b".to_string()), Err("a".to_string())] { v.push(Pair::Text(c, a.clone(), b.clone())); } } }
      5 => { for a in [Ok(Unit0), Err("a".to_string())] { for b in [Ok(Unit0), Err("a".to_string()), Err("b".to_string())] { v.push(Pair::ZNamedOk(c, a.clone(), b.clone())); } } }
      6 => { for a in [Ok(Var::A(0)), Ok(Var::B(0)), Err(Var::A(1))] { for b in [Ok(Var::B(0)), Ok(Var::A(1)), Err(Var::B(1)), Err(Var::A(0))] { v.push(Pair::VarP(c, a, b)); } } }
      7 => { for a in 0u8..4 { for b in 0u8..4 { v.push(Pair::Misc(c, a * 2 + 1, a, b)); } } }
      _ => { v.push(Pair::Inf(c)); }
    }
  }
  v
}

pub fn battery(first: usize) -> CheckResult {
  let mut stats = Stats::dummy();
  for k in 0..N_FAMILIES {
    for p in family((first + k) % N_FAMILIES) {
      check(&p, &mut stats).map_err(|f| Failure::new(format!("in a fresh process that checks type family #{} first, then the others in order: {:?}: {}", first % N_FAMILIES, p, f.msg)))?;
    }
  }
  Ok(())
}

pub fn replay(path: &Path) -> Result<CheckResult, String> {
  if driver::replay_label(path).map(|x| x.1 == "battery").unwrap_or(false) {
    let (_, _, first): (_, _, usize) = driver::load_replay(path)?;
    return Ok(run_battery_process(first));
  }
  let (_, _, p): (_, _, Pair) = driver::load_replay(path)?;
  Ok(check(&p, &mut Stats::dummy()))
}

/// Runs `battery(first)` in a freshly spawned process.
fn run_battery_process(first: usize) -> CheckResult {
  let exe = std::env::current_exe().map_err(|e| Failure::new(format!("current_exe: {}", e)))?;
  let out = std::process::Command::new(exe).arg("c12-battery").arg(first.to_string()).output().map_err(|e| Failure::new(format!("cannot spawn the battery process: {}", e)))?;
  if out.status.success() { return Ok(()); }
  let text = String::from_utf8_lossy(&out.stdout);
  Err(Failure::new(text.lines().find(|l| l.starts_with("BATTERY-FAILED ")).map(|l| l["BATTERY-FAILED ".len()..].to_string()).unwrap_or_else(|| format!("battery process for first family {} ended with {:?}", first, out.status))))
}

pub fn run(tier: Tier, seed: u64) -> i32 {
  let rule = "all five built-in checkers through both the OutputChecker methods and the object-safe OutputCheckerObj proxy: (1) exhaustive over all 8x8 pairs of Result<u8 in 0..4, u8 in 0..4> x 5 checkers; (1b) exhaustive over Result<u8,()>, Result<(),u8>, Result<(),()> (zero-sized payload types); (2) proptest-generated pairs of Result<String,String>, Result<(u8,String),Vec<u8>>, Result<String,UnitStruct>, Result<UnitStruct,String>, Result<[u8;24],u64>, payload types whose Debug text is terser / finer than their Eq, enums (and Cow<str>) equal across variants, PathBuf spellings, HashSet, i128, nested options, Rc, empty arrays, &'static str, char, wide tuples, and Option/tuple/Vec values for EqualsChecker; (3) nine fixed batteries over all type families, each run in a fresh process starting with a different family (state kept per process must not depend on which type was checked first); oracle: check(o2, stamp(o1)) is consistent iff the documented relation holds, plus reflexivity; non-trivial = pair on which the relation differs from plain equality (or an unequal pair for EqualsChecker); distinct by value hash";
  let mut report = Report::new("C12", tier, seed, "exploration", rule);
  let known = Known::load("C12");
  super::prologue(&mut report, &known);
  // Exhaustive part.
  let vals: Vec<Result<u8, u8>> = (0..4).map(Ok).chain((0..4).map(Err)).collect();
  let mut exhaustive = 0u64;
  'outer: for c in CKS {
    for a in &vals {
      for b in &vals {
        exhaustive += 1;
        let p = Pair::Small(c, *a, *b);
        if let Err(f) = check(&p, &mut report.stats) {
          report.violation("pair", &serde_json::to_value(&p).unwrap(), &f, &format!("{:?}", p));
          break 'outer;
        }
      }
    }
  }
  // Exhaustive over the zero-sized-payload domains as well: Result<u8 in 0..3, ()>, Result<(), u8 in 0..3>, Result<(), ()>.
  let ze: Vec<Result<u8, ()>> = (0..3).map(Ok).chain([Err(())]).collect();
  let zo: Vec<Result<(), u8>> = [Ok(())].into_iter().chain((0..3).map(Err)).collect();
  let zb: Vec<Result<(), ()>> = vec![Ok(()), Err(())];
  let mut zpairs: Vec<Pair> = vec![];
  for c in CKS {
    for a in &ze { for b in &ze { zpairs.push(Pair::ZErr(c, *a, *b)); } }
    for a in &zo { for b in &zo { zpairs.push(Pair::ZOk(c, *a, *b)); } }
    for a in &zb { for b in &zb { zpairs.push(Pair::ZBoth(c, *a, *b)); } }
  }
  if report.violations.is_empty() {
    for p in &zpairs {
      exhaustive += 1;
      if let Err(f) = check(p, &mut report.stats) {
        report.violation("pair", &serde_json::to_value(p).unwrap(), &f, &format!("{:?}", p));
        break;
      }
    }
  }
  report.stats.evaluations += exhaustive;
  report.extra.insert("exhaustive_pairs".into(), json!(exhaustive));
  report.extra.insert("exhaustive_scope".into(), json!("all 64 ordered pairs of Result<u8 in 0..4, u8 in 0..4>, all 16+16+4 pairs of Result<u8 in 0..3,()>, Result<(),u8 in 0..3>, Result<(),()>, x 5 checkers x 2 routes"));
  // Order dependence across a process: every starting family, each in a fresh process.
  if report.violations.is_empty() {
    for first in 0..N_FAMILIES {
      report.stats.evaluations += (0..N_FAMILIES).map(|k| family(k).len() as u64).sum::<u64>();
      if let Err(f) = run_battery_process(first) {
        report.violation("battery", &json!(first), &f, &format!("battery starting with family {}", first));
        break;
      }
    }
    report.extra.insert("fresh_process_batteries".into(), json!(N_FAMILIES));
  }
  let (shards, cases) = match tier { Tier::Quick => (16, 20000), Tier::Thorough => (16, 200000) };
  let cfg = SearchCfg { prop: "C12", label: "pair", seed, shards, cases_per_shard: cases, max_shrink_iters: 2000 };
  let (stats, found) = driver::search(&cfg, &known, strategy, |p, s| check(p, s), |p| format!("{:?}", p));
  report.absorb("pair", stats, found);
  report.exhaustive = Some(false);
  report.assumptions = vec!["the documented relations are those in the doc comments of pie/src/task.rs".into()];
  report.finish()
}
