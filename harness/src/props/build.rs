//! Properties decided on generated task programs × histories run against a real Pie instance:
//! C01, C02, C03, C04 (and, through further specs, C09, C16, C17, C18, C20a).

use std::collections::BTreeSet;
use std::path::Path;

use serde_json::json;

use crate::analyze::{analyze, Analysis};
use crate::driver::{self, fingerprint, CheckResult, Failure, Known, Report, SearchCfg, Stats, Tier};
use crate::engine::{self, BuildKind, Opts, Run};
use crate::gen::{self, GenCfg};
use crate::lang::*;
use crate::model::DepTarget;

pub struct Spec {
  pub prop: &'static str,
  pub level: &'static str,
  pub rule: &'static str,
  pub cfg: fn(Tier) -> GenCfg,
  pub transform: fn(&Case) -> Case,
  pub judge: fn(&Case, &Run, &Analysis, &mut Stats) -> CheckResult,
  pub opts: fn() -> Opts,
  pub quick: (u32, u32),
  pub thorough: (u32, u32),
  pub assumptions: &'static [&'static str],
  /// Case strategy for a generator configuration (None = plain well-formed cases).
  pub strategy: Option<fn(GenCfg) -> proptest::strategy::BoxedStrategy<Case>>,
  /// Additional phase (enumeration of fault subsets / crash points).
  pub extra: Option<fn(&Spec, Tier, u64, &Known, &mut Report)>,
}

pub fn check(spec: &Spec, case: &Case, stats: &mut Stats) -> CheckResult {
  let tcase = (spec.transform)(case);
  let run = engine::run_case(&tcase, &(spec.opts)());
  let an = analyze(&tcase, &run);
  common_classes(&tcase, &an, stats);
  (spec.judge)(&tcase, &run, &an, stats)
}

fn common_classes(case: &Case, an: &Analysis, stats: &mut Stats) {
  if !stats.live { return; }
  stats.class_n("sessions", case.hist.steps.iter().filter(|s| matches!(s, Step::Session { .. })).count() as u64);
  stats.class_n("changes", case.hist.steps.iter().filter(|s| matches!(s, Step::Change { .. })).count() as u64);
  for st in &case.hist.steps {
    if let Step::Session { builds } = st {
      let n_bu = builds.iter().filter(|b| matches!(b, Build::BottomUp { .. })).count();
      if n_bu >= 2 { stats.class("session_with_two_bottom_up_builds"); }
      if n_bu >= 1 && matches!(builds.first(), Some(Build::TopDown(_))) { stats.class("session_with_top_down_before_bottom_up"); }
    }
  }
  let mut execs = 0u64;
  let mut reused = 0u64;
  let mut checks = 0u64;
  for b in &an.builds {
    if matches!(b.kind, BuildKind::Probe(_)) { continue; }
    execs += b.executed.len() as u64;
    reused += b.facts.reused.len() as u64;
    checks += b.facts.checks;
    if b.facts.early_cutoff { stats.class("build_with_early_cutoff"); }
    if b.facts.dropped_require { stats.class("build_where_task_dropped_a_require"); }
    if b.facts.added_require { stats.class("build_where_task_added_a_require"); }
    if b.facts.coarse_ignored_change { stats.class("build_where_coarse_checker_ignored_a_change"); }
    if !b.facts.reused.is_empty() && !b.facts.re_executed.is_empty() { stats.class("build_with_mixed_reuse"); }
    if b.facts.max_checks_in_frame >= 3 { stats.class("build_with_frame>=3_checks"); }
    if matches!(b.kind, BuildKind::BottomUp(_)) {
      stats.class("bottom_up_builds");
      if b.facts.max_queue >= 3 { stats.class("bottom_up_with_>=3_queued"); }
      if b.facts.bu_nested_drain { stats.class("bottom_up_with_nested_drain"); }
      if b.facts.bu_first_required { stats.class("bottom_up_with_first_time_require"); }
      if b.facts.bu_cutoff { stats.class("bottom_up_with_cutoff"); }
      if b.facts.bu_over_report { stats.class("bottom_up_report_names_unchanged_resource"); }
      if b.executed.len() >= 2 { stats.class("bottom_up_executing>=2"); }
    }
    if b.panic.is_some() { stats.class("aborted_builds"); }
  }
  stats.class_n("task_executions", execs);
  stats.class_n("task_reuses", reused);
  stats.class_n("dependency_checks", checks);
}

fn fail_on(an: &Analysis, tags: &[&'static str]) -> CheckResult {
  match an.has(tags) {
    Some(t) => Err(Failure::new(format!("[{}] {}", t.tag, t.msg))),
    None => Ok(()),
  }
}

pub fn sample(case: &Case, stats: &mut Stats) {
  stats.sample(|| json!(pretty_case(case)));
}

// ---------------------------------------------------------------------------------------------------------------------
// History transforms

pub fn identity(c: &Case) -> Case { c.clone() }

/// After every session, a probe session requiring the same roots again (idempotence).
pub fn probe_same_roots(c: &Case) -> Case {
  let mut steps = vec![];
  for s in &c.hist.steps {
    steps.push(s.clone());
    if let Step::Session { builds } = s {
      let mut roots = vec![];
      for b in builds {
        match b {
          Build::TopDown(t) => roots.push(*t),
          Build::BottomUp { then, .. } => roots.extend(then.iter().cloned()),
          Build::Change { .. } => {}
        }
      }
      if !roots.is_empty() { steps.push(Step::Probe { roots }); }
    }
  }
  Case { prog: c.prog.clone(), hist: History { steps }, inject: c.inject.clone() }
}

/// After every session that contains a bottom-up build, a probe session requiring every task.
pub fn probe_all_after_bottom_up(c: &Case) -> Case {
  let mut steps = vec![];
  for s in &c.hist.steps {
    steps.push(s.clone());
    if let Step::Session { builds } = s {
      if builds.iter().any(|b| matches!(b, Build::BottomUp { .. })) {
        steps.push(Step::Probe { roots: (0..c.prog.n_tasks() as TaskId).collect() });
      }
    }
  }
  Case { prog: c.prog.clone(), hist: History { steps }, inject: c.inject.clone() }
}

// ---------------------------------------------------------------------------------------------------------------------
// C01

fn c01_judge(case: &Case, run: &Run, an: &Analysis, stats: &mut Stats) -> CheckResult {
  // Non-trivial: a session after a change with mixed reuse, or an externally modified generated resource whose writer
  // was validated in the next session.
  let mut nontrivial = false;
  for (si, sess) in run.sessions.iter().enumerate() {
    if sess.changed_before.is_empty() { continue; }
    let mut reused = false;
    let mut reexec = false;
    let mut touched: BTreeSet<TaskId> = BTreeSet::new();
    for b in an.builds.iter().filter(|b| b.session == si) {
      reused |= !b.facts.reused.is_empty();
      reexec |= !b.facts.re_executed.is_empty();
      touched.extend(b.facts.reused.iter().cloned());
      touched.extend(b.facts.executed.iter().cloned());
    }
    if reused && reexec { nontrivial = true; stats.class("session_after_change_with_mixed_reuse"); }
    for r in &sess.changed_before {
      if let Some(w) = case.prog.writer_of(*r) {
        if touched.contains(&w) { nontrivial = true; stats.class("generated_resource_changed_externally_then_writer_validated"); }
      }
    }
  }
  if nontrivial { stats.nontrivial(fingerprint(case)); sample(case, stats); }
  if case.prog.panicky && an.builds.iter().any(|b| b.panic.is_some()) { stats.class("case_with_task_panic_abort"); }
  // Sessions that contain a bottom-up build (with an arbitrary, possibly incomplete report) are history, not subject:
  // C01 speaks about top-down requires, "whatever was built before on the same Pie instance".
  let bu_sessions: BTreeSet<usize> = an.builds.iter().filter(|b| matches!(b.kind, BuildKind::BottomUp(_))).map(|b| b.session).collect();
  if !bu_sessions.is_empty() {
    stats.class("case_with_earlier_bottom_up_builds_(arbitrary_reports)");
    if run.sessions.iter().enumerate().any(|(si, s)| si > *bu_sessions.iter().next().unwrap() && !bu_sessions.contains(&si) && !s.builds.is_empty()) { stats.class("top_down_session_after_arbitrary_bottom_up_build"); }
  }
  match an.findings.iter().find(|f| ["c01-output", "c01-state", "panic-internal", "missed-violation", "missed-task-panic"].contains(&f.tag) && !bu_sessions.contains(&f.session)) {
    Some(t) => Err(Failure::new(format!("[{}] {}", t.tag, t.msg))),
    None => Ok(()),
  }
}

fn c01_cfg(t: Tier) -> GenCfg {
  let mut c = GenCfg::for_tier(t);
  c.task_panic_share = 2;
  c.bottom_up = true;
  c.bottom_up_weight = 2;
  c.arbitrary_reports = true;
  c.over_report = true;
  c.mixed_sessions = true;
  c
}

pub const C01: Spec = Spec {
  prop: "C01",
  level: "exploration",
  rule: "proptest-generated static-role task programs (value-dependent requires/reads/writes, all checker kinds, exact write checkers) x histories of top-down sessions and external changes to source and generated resources, interleaved (for programs without task failures) with bottom-up sessions whose reports are arbitrary, possibly incomplete subsets of the changed resources - those sessions are history only, not judged; after every returning require of a session without bottom-up build the output and the whole resource state are compared with a from-scratch evaluator run on the state the session started in; non-trivial = a session after a change in which some task was reused and some re-executed, or a generated resource changed externally before a session validating its writer; distinct by case hash",
  cfg: c01_cfg,
  transform: identity,
  judge: c01_judge,
  opts: Opts::default,
  quick: (16, 15000),
  thorough: (16, 250000),
  extra: None,
  strategy: None,
  assumptions: &["from-scratch evaluator (model.rs) is the specification of a clean build", "external changes only between sessions (P1)", "programs obey the static-role discipline of DESIGN.md §4.2"],
};

// ---------------------------------------------------------------------------------------------------------------------
// C02

fn exact_only(p: &Program) -> bool {
  fn block(b: &[Stmt]) -> bool {
    b.iter().all(|s| match s {
      Stmt::Read { chk, .. } | Stmt::Write { chk, .. } => *chk == RChk::Exact,
      Stmt::Require { chk, .. } => matches!(chk, OChk::Equals | OChk::IEquals),
      Stmt::If { then, els, .. } => block(then) && block(els),
      Stmt::PanicIf { .. } => true,
    })
  }
  p.tasks.iter().all(|t| block(&t.body))
}

fn has_volatile(p: &Program) -> bool {
  fn block(b: &[Stmt]) -> bool {
    b.iter().any(|s| match s {
      Stmt::Read { chk, .. } | Stmt::Write { chk, .. } => *chk == RChk::Never,
      Stmt::Require { chk, .. } => *chk == OChk::Never,
      Stmt::If { then, els, .. } => block(then) || block(els),
      Stmt::PanicIf { .. } => false,
    })
  }
  p.tasks.iter().any(|t| block(&t.body))
}

fn c02_judge(case: &Case, run: &Run, an: &Analysis, stats: &mut Stats) -> CheckResult {
  if has_volatile(&case.prog) { stats.class("program_with_a_never_consistent_checker"); }
  let exact = exact_only(&case.prog);
  if exact { stats.class("exact_only_program"); }
  let mut nontrivial = false;
  for b in &an.builds {
    if matches!(b.kind, BuildKind::Probe(_)) { continue; }
    let after_change = !run.sessions[b.session].changed_before.is_empty();
    if after_change && b.facts.max_checks_in_frame >= 2 && (b.facts.early_cutoff || b.facts.dropped_require) { nontrivial = true; }
  }
  if nontrivial { stats.nontrivial(fingerprint(case)); sample(case, stats); }
  // Sessions with a bottom-up build (arbitrary reports) are history only; so are the probes that repeat their roots.
  let bu_sessions: BTreeSet<usize> = an.builds.iter().filter(|b| matches!(b.kind, BuildKind::BottomUp(_))).map(|b| b.session).collect();
  if !bu_sessions.is_empty() { stats.class("case_with_earlier_bottom_up_builds_(arbitrary_reports)"); }
  let skipped = |si: usize| bu_sessions.contains(&si) || (run.sessions[si].probe && si > 0 && bu_sessions.contains(&(si - 1)));
  if let Some(t) = an.findings.iter().find(|f| ["I1-double-exec", "I2-unjustified-exec", "I2-verdict", "I3-order"].contains(&f.tag) && !skipped(f.session)) {
    return Err(Failure::new(format!("[{}] {}", t.tag, t.msg)));
  }
  // I1 again, straight from the task-side log: in a session of top-down builds no task starts executing twice (a build
  // cut by a panic ends the claim for that session: the aborted tasks may be executed again).
  for (si, sess) in run.sessions.iter().enumerate() {
    if skipped(si) || sess.builds.iter().any(|b| matches!(b.kind, BuildKind::BottomUp(_))) { continue; }
    let mut seen: BTreeSet<TaskId> = BTreeSet::new();
    'builds: for b in &sess.builds {
      for l in &run.log[b.log.clone()] {
        match l {
          crate::interp::L::Aborted => break 'builds,
          crate::interp::L::TEnter(t) => { if !seen.insert(*t) { return Err(Failure::new(format!("[I1-double-exec] session {}: T{} started executing a second time in this session (task-side log; build {:?})", si, t, b.kind))); } }
          _ => {}
        }
      }
    }
  }
  // I4: probes execute nothing.
  for b in &an.builds {
    if skipped(b.session) { continue; }
    if let BuildKind::Probe(t) = b.kind {
      // Only when every build of the probed session returned: a root whose build aborted never completed, so requiring
      // it again legitimately executes it (and tasks below it) again.
      let original_aborted = b.session > 0 && run.sessions[b.session - 1].builds.iter().any(|x| matches!(x.result, engine::BuildResult::Panic(_)));
      // While checker faults are armed, a failing check legitimately forces re-execution in every session.
      let faults_armed = !run.sessions[b.session].faults.is_empty() || has_volatile(&case.prog);
      if faults_armed { stats.class("probe_not_judged_while_checker_faults_are_armed"); }
      if b.panic.is_none() && !original_aborted && !faults_armed && !b.executed.is_empty() {
        return Err(Failure::new(format!("[I4-idempotence] session {}: requiring T{} again with nothing changed executed {:?}", b.session, t, b.executed)));
      }
    }
  }
  // I5: with exact checkers nothing is executed that a from-scratch build would not execute.
  if exact { if let Some(t) = an.findings.iter().find(|f| f.tag == "I5-unreached-exec" && !skipped(f.session)) { return Err(Failure::new(format!("[{}] {}", t.tag, t.msg))); } }
  Ok(())
}

fn c02_cfg(t: Tier) -> GenCfg {
  let mut c = c01_cfg(t);
  // A checker error is an inconsistency reported by the dependency's own checker: validation must stop there too.
  c.faulty = true;
  c.fault_steps = true;
  // Volatile dependencies (checker never consistent): re-executed whenever validated - but still at most once per session.
  c.rchks = RCHKS_VOLATILE.to_vec();
  c.ochks = OCHKS_VOLATILE.to_vec();
  c
}

pub const C02: Spec = Spec {
  prop: "C02",
  level: "exploration",
  rule: "same generated programs x histories as C01 (bottom-up sessions with arbitrary reports are history only) (40% use only exact checkers, multi-access with the same checker included); every session is followed by a probe session requiring the same roots; a trace acceptor checks per validation frame: checks are a prefix of the task's dependency list in creation order (from the task-side log), stop at the first inconsistency, every verdict equals the checker relation, an execution only after an inconsistent/erroneous check or without cached output, at most one execution per task per session, probes execute nothing, and with exact-only programs executed tasks are a subset of what the from-scratch evaluator reaches; non-trivial = build after a change with a frame of >=2 checks and (early cut-off or a task dropping a require); distinct by case hash",
  cfg: c02_cfg,
  transform: probe_same_roots,
  judge: c02_judge,
  opts: Opts::default,
  quick: (16, 15000),
  thorough: (16, 250000),
  extra: None,
  strategy: None,
  assumptions: &["task-side log is ground truth for what a task's last execution did", "checker relations of model.rs (O4)"],
};

// ---------------------------------------------------------------------------------------------------------------------
// C03

pub fn bu_cfg(t: Tier) -> GenCfg {
  let mut c = GenCfg::for_tier(t);
  c.bottom_up = true;
  c.bottom_up_weight = 5;
  c.over_report = true;
  c.mixed_sessions = true;
  c
}

/// Failures in probe/then builds that follow a bottom-up build; attributed to C03-F1 by the model-only signature.
fn c03_judge(case: &Case, run: &Run, an: &Analysis, stats: &mut Stats) -> CheckResult { c03_judge_inner(case, run, an, stats, true) }

/// Long sessions (external changes while a session is open, reported to a bottom-up build of the same session): only the
/// property's own demand is made - afterwards every known task is up to date and returns from-scratch results. The
/// event-level acceptor is not consulted: the per-session memo of validated tasks makes pie execute a task twice in such
/// builds, which C04 (whose histories have no such changes) does not speak about.
fn c03_judge_long(case: &Case, run: &Run, an: &Analysis, stats: &mut Stats) -> CheckResult {
  let long = case.hist.steps.iter().any(|s| matches!(s, Step::Session { builds } if builds.iter().any(|b| matches!(b, Build::Change { .. }))));
  if long { stats.class("case_with_changes_while_a_session_is_open"); }
  c03_judge_inner(case, run, an, stats, !long)
}

fn c03_judge_inner(case: &Case, run: &Run, an: &Analysis, stats: &mut Stats, strict_acceptor: bool) -> CheckResult {
  let _ = case;
  let mut nontrivial = false;
  for b in &an.builds {
    if matches!(b.kind, BuildKind::BottomUp(_)) && b.executed.len() >= 2 && (b.facts.bu_cutoff || b.facts.dropped_require || b.facts.added_require || b.facts.bu_nested_drain || b.facts.bu_first_required) { nontrivial = true; }
  }
  if nontrivial { stats.nontrivial(fingerprint(case)); sample(case, stats); }
  if strict_acceptor { fail_on(an, &["panic-internal", "bu-leftover", "bu-missing-schedule", "bu-missed-check", "bu-undrained", "missing-exec"])?; } else { fail_on(an, &["panic-internal"])?; }
  // Which bottom-up session does a judged build belong to?
  let mut last_bu: Option<usize> = None;
  for (si, sess) in run.sessions.iter().enumerate() {
    let has_bu = sess.builds.iter().any(|b| matches!(b.kind, BuildKind::BottomUp(_)));
    if has_bu { last_bu = Some(si); }
    let judged = has_bu || (sess.probe && last_bu == Some(si.wrapping_sub(1)));
    if !judged { continue; }
    let bu = last_bu.unwrap();
    let stale: Vec<(TaskId, DepTarget)> = an.stale_before_bu.get(&bu).cloned().unwrap_or_default();
    // Within the bottom-up session itself only builds after its first bottom-up build are judged.
    let first_bu = an.builds.iter().filter(|b| b.session == si).position(|b| matches!(b.kind, BuildKind::BottomUp(_)));
    for (k, b) in an.builds.iter().filter(|b| b.session == si).enumerate() {
      if matches!(b.kind, BuildKind::BottomUp(_)) { continue; }
      if let Some(f) = first_bu { if k < f { continue; } }
      // Tasks executed by the bottom-up builds of that session that precede the judged build.
      let bu_exec: BTreeSet<TaskId> = an.bu_exec_builds.iter().filter(|(s, bi, _)| *s == bu && (si != bu || *bi < b.build)).flat_map(|(_, _, t)| t.iter().cloned()).collect();
      let stale_tasks: BTreeSet<TaskId> = stale.iter().map(|x| x.0).filter(|t| !bu_exec.contains(t)).collect();
      let executed_known: Vec<TaskId> = b.executed.iter().cloned().filter(|t| b.completed_before.contains(t)).collect();
      let mismatch = an.findings.iter().find(|f| f.session == si && f.build == b.build && (f.tag == "c01-output" || f.tag == "c01-state"));
      if executed_known.is_empty() && mismatch.is_none() { continue; }
      // C03-F1 signature.
      let roots: Vec<(TaskId, Option<DepTarget>)> = an.root_causes.iter().filter(|r| r.0 == si && r.1 == b.build && b.completed_before.contains(&r.2)).map(|r| (r.2, r.3)).collect();
      let roots_explained = !stale_tasks.is_empty() && roots.iter().all(|(t, target)| match target { Some(tg) => stale.contains(&(*t, *tg)) && !bu_exec.contains(t), None => false });
      let attributed = if !executed_known.is_empty() { roots_explained && !roots.is_empty() } else { !stale_tasks.is_empty() };
      let msg = match mismatch {
        Some(m) => format!("[c03-not-up-to-date] after the bottom-up build of session {}: {}", bu, m.msg),
        None => format!("[c03-not-up-to-date] after the bottom-up build of session {}: requiring {:?} in session {} executed known tasks {:?} (root causes {:?})", bu, b.kind, si, executed_known, roots),
      };
      if attributed {
        stats.class("c03_f1_stale_after_partial_top_down");
        return Err(Failure::with_sig(msg, "C03-F1/stale-before-bottom-up"));
      }
      return Err(Failure::new(msg));
    }
  }
  Ok(())
}

pub const C03: Spec = Spec {
  prop: "C03",
  level: "exploration",
  rule: "generated static-role programs x histories in which every batch of external changes (sources and generated resources) is reported completely to a bottom-up build, with top-down sessions and same-session requires interleaved; after each bottom-up session a probe session requires every task: no task that had completed before may execute and outputs/resources must equal the from-scratch evaluator; the acceptor additionally demands that every recorded reader/writer of a reported or rewritten resource and every recorded requirer of an executed task is checked, that every inconsistent check schedules, and that nothing stays scheduled; a second search (label long-session) keeps a session open across several rounds of external changes, each reported completely to a bottom-up build of that same session, and makes only the property's own demand (afterwards nothing known executes, results equal from-scratch); non-trivial = bottom-up build executing >=2 tasks with a cut-off, a changed require set, a nested drain or a first-time require; distinct by case hash",
  cfg: bu_cfg,
  transform: probe_all_after_bottom_up,
  judge: c03_judge,
  opts: Opts::default,
  quick: (16, 15000),
  thorough: (16, 250000),
  extra: Some(c03_extra),
  strategy: None,
  assumptions: &["complete report = every resource changed externally since the last complete bottom-up build (tracked by the history builder)", "C03-F1 (task left stale by a partial top-down build) is attributed by a model-only signature"],
};

fn c03_long_cfg(t: Tier) -> GenCfg { let mut c = bu_cfg(t); c.mid_session_changes = true; c.bottom_up_weight = 6; c }
const C03_LONG: Spec = Spec { judge: c03_judge_long, cfg: c03_long_cfg, extra: None, ..C03 };

fn c03_extra(_spec: &Spec, tier: Tier, seed: u64, known: &Known, report: &mut Report) {
  let (shards, cases) = match tier { Tier::Quick => (16, 8000), Tier::Thorough => (16, 120000) };
  let cfg = c03_long_cfg(tier);
  let scfg = SearchCfg { prop: "C03", label: "long-session", seed, shards, cases_per_shard: cases, max_shrink_iters: 3000 };
  let (stats, found) = driver::search(&scfg, known, || spec_strategy(&C03_LONG, cfg.clone()), |c, s| check(&C03_LONG, c, s), |c| pretty_case(c));
  report.absorb("long-session", stats, found);
}

// ---------------------------------------------------------------------------------------------------------------------
// C04

fn c04_judge(case: &Case, run: &Run, an: &Analysis, stats: &mut Stats) -> CheckResult {
  // At most once per bottom-up build, straight from the task-side log (independent of how the event stream parses).
  for (si, sess) in run.sessions.iter().enumerate() {
    for (bi, b) in sess.builds.iter().enumerate() {
      if !matches!(b.kind, BuildKind::BottomUp(_)) { continue; }
      let mut seen: BTreeSet<TaskId> = BTreeSet::new();
      for l in &run.log[b.log.clone()] {
        if let crate::interp::L::TEnter(t) = l { if !seen.insert(*t) { return Err(Failure::new(format!("[I1-double-exec] session {} build {} ({:?}): T{} started executing twice in one bottom-up build (task-side log)", si, bi, b.kind, t))); } }
      }
    }
  }
  let mut nontrivial = false;
  for b in &an.builds {
    if matches!(b.kind, BuildKind::BottomUp(_)) && b.facts.max_queue >= 3 && (b.facts.bu_cutoff || b.facts.bu_nested_drain) { nontrivial = true; }
  }
  if nontrivial { stats.nontrivial(fingerprint(case)); sample(case, stats); }
  // Only bottom-up builds are judged here.
  for f in &an.findings {
    let is_bu = an.builds.iter().any(|b| b.session == f.session && b.build == f.build && matches!(b.kind, BuildKind::BottomUp(_)));
    if !is_bu { continue; }
    if ["I1-double-exec", "bu-unscheduled-exec", "bu-order", "bu-unjustified-schedule", "bu-unrelated-drain", "bu-verdict", "bu-extra-check", "I2-unjustified-exec"].contains(&f.tag) {
      return Err(Failure::new(format!("[{}] {}", f.tag, f.msg)));
    }
  }
  Ok(())
}

fn c04_cfg(t: Tier) -> GenCfg {
  let mut c = bu_cfg(t);
  c.wide = true;
  c
}

pub const C04: Spec = Spec {
  prop: "C04",
  level: "exploration",
  rule: "generated static-role programs (wide: more dependencies per task) x histories of completely reported change sets; a bottom-up trace acceptor checks: every execution is of a task scheduled by a check that its own checker (and the harness's relation) judged inconsistent, or of a never-completed task; at most one execution per task; when a scheduled task starts, no other scheduled task is reachable from it over recorded requires; consistent checks never schedule; tasks drained by a nested require are dependencies of the required task; non-trivial = >=3 tasks scheduled at once and (a consistent check cut scheduling off or a nested require drained a scheduled dependency); distinct by case hash",
  cfg: c04_cfg,
  transform: identity,
  judge: c04_judge,
  opts: Opts::default,
  quick: (16, 15000),
  thorough: (16, 250000),
  extra: None,
  strategy: None,
  assumptions: &["recorded require graph = shadow record built from the task-side log"],
};

// ---------------------------------------------------------------------------------------------------------------------
// C09

fn c09_cfg(t: Tier) -> GenCfg {
  let mut c = bu_cfg(t);
  c.wchks = RCHKS_VOLATILE.to_vec();
  c.rchks = RCHKS_VOLATILE.to_vec();
  c.ochks = OCHKS_VOLATILE.to_vec();
  c.exact_share = 0;
  c.bottom_up_weight = 3;
  c.task_panic_share = 2;
  c
}

fn c09_judge(case: &Case, run: &Run, an: &Analysis, stats: &mut Stats) -> CheckResult {
  let mut nontrivial = false;
  for b in &an.builds { if b.facts.coarse_ignored_change { nontrivial = true; } }
  // A writer whose own write changes the value its (coarse) write checker stamps.
  for l in &run.log {
    if let crate::interp::L::TWriteCall { chk, .. } = l { if *chk != RChk::Exact { stats.class("write_with_coarse_checker"); nontrivial = true; break; } }
  }
  if nontrivial { stats.nontrivial(fingerprint(case)); sample(case, stats); }
  if let Some(f) = crate::instr::stamp_timeliness(&run.log).into_iter().next() {
    return Err(Failure::new(format!("[{}] {}", f.tag, f.msg)));
  }
  fail_on(an, &["stamp", "I2-verdict", "bu-verdict", "I2-unjustified-exec", "bu-unjustified-schedule", "missing-exec", "bu-missing-schedule", "incomplete-validation", "bu-unscheduled-exec", "bu-leftover", "bu-missed-check", "bu-extra-check", "panic-internal"])
}

pub const C09: Spec = Spec {
  prop: "C09",
  level: "exploration",
  rule: "generated programs mixing exact, parity, existence-only and always-consistent checkers on reads, writes and requires (built-in and instrumented output checkers) x histories (top-down and bottom-up) with changes coarse checkers must ignore; instrumented resource/reader/writer handles and checkers log every stamp/check call: each read is stamped once, from the reader handed to the task, before the task consumes it; each write once, from the writer the write function used, after it ran (written_to: from the state at call time); require_end stamp describes the output the requirer received; each check call receives checker and stamp of creation; and the acceptor demands that a consistent verdict never leads to execution/scheduling and an inconsistent one always does; non-trivial = a change a coarse checker ignored while the raw value differed, or a write with a coarse checker; distinct by case hash",
  cfg: c09_cfg,
  transform: identity,
  judge: c09_judge,
  opts: Opts::default,
  quick: (16, 15000),
  thorough: (16, 250000),
  extra: None,
  strategy: None,
  assumptions: &["instrumented checkers and handles of the harness log faithfully", "stamp_* of generated checkers never fail (P9)"],
};

// ---------------------------------------------------------------------------------------------------------------------
// C17 (part A: builds; part B, the API-level half, lives in props/trackerapi.rs)

fn composite_opts() -> Opts { Opts { composite: true, dump: false } }

/// One build per session, so that pie's EventTracker (which clears on build_start) can be compared after each build.
pub fn split_sessions(c: &Case) -> Case {
  let mut steps = vec![];
  for s in &c.hist.steps {
    match s {
      Step::Session { builds } if builds.len() > 1 => { for b in builds { steps.push(Step::Session { builds: vec![b.clone()] }); } }
      other => steps.push(other.clone()),
    }
  }
  Case { prog: c.prog.clone(), hist: History { steps }, inject: c.inject.clone() }
}

pub fn c17_judge(case: &Case, run: &Run, an: &Analysis, stats: &mut Stats) -> CheckResult {
  let events = crate::instr::events_of(&run.log);
  let (nest, depth) = crate::instr::nesting_log(&run.log);
  let has_bu = an.builds.iter().any(|b| matches!(b.kind, BuildKind::BottomUp(_)) && !b.facts.scheduled.is_empty());
  if depth >= 3 && has_bu { stats.nontrivial(fingerprint(case)); sample(case, stats); }
  if depth >= 6 { stats.class("nesting_depth>=6"); }
  stats.add("tracker_events", events.len() as u64);
  if let Some(f) = nest.into_iter().next() { return Err(Failure::new(format!("[{}] {}", f.tag, f.msg))); }
  if let Some(f) = crate::instr::faithfulness(&run.log).into_iter().next() { return Err(Failure::new(format!("[{}] {}", f.tag, f.msg))); }
  fail_on(an, &["exec-output", "require-end-output", "shape", "panic-internal"])?;
  // Composite: the second child received the identical stream.
  let second = run.streams.get(&1).cloned().unwrap_or_default();
  if second != events {
    let i = second.iter().zip(events.iter()).position(|(a, b)| a != b).unwrap_or(second.len().min(events.len()));
    return Err(Failure::new(format!("[c17-composite] the two children of CompositeTracker received different streams; first difference at event #{}: {:?} vs {:?}", i, events.get(i), second.get(i))));
  }
  // EventTracker: after each session, its slice equals the projection of the last build's stream.
  let mut k = 0;
  for sess in &run.sessions {
    if let (Some(last), Some(got)) = (sess.builds.last(), run.event_tracker_debug.get(k)) {
      // All events since the last build_start of this session.
      let first = sess.builds.first().map(|b| b.log.start).unwrap_or(0);
      let evs = crate::instr::events_of(&run.log[first..last.log.end]);
      let want = crate::instr::event_tracker_projection(&evs);
      if &want != got {
        let i = want.iter().zip(got.iter()).position(|(a, b)| a != b).unwrap_or(want.len().min(got.len()));
        return Err(Failure::new(format!("[c17-event-tracker] EventTracker::slice() differs from the stream it was given at position {}: stored {:?}, stream {:?} (lengths {} vs {})", i, got.get(i), want.get(i), got.len(), want.len())));
      }
    }
    k += 1;
  }
  Ok(())
}

fn c17_cfg(t: Tier) -> GenCfg {
  let mut c = bu_cfg(t);
  c.bottom_up_weight = 3;
  // Checker errors at validation time are part of the event stream too.
  c.faulty = true;
  c.fault_steps = true;
  // Builds cut by a task failure: the only place where unclosed starts are tolerated.
  c.task_panic_share = 2;
  c
}

fn c17_extra(_spec: &Spec, tier: Tier, seed: u64, known: &Known, report: &mut Report) {
  let (shards, cases, max) = match tier { Tier::Quick => (16, 6000, 40), Tier::Thorough => (16, 60000, 80) };
  let scfg = SearchCfg { prop: "C17", label: "api", seed, shards, cases_per_shard: cases, max_shrink_iters: 3000 };
  let (stats, found) = driver::search(&scfg, known, || super::trackerapi::strategy(max), |c, s| super::trackerapi::check(c, s), |c| format!("{:?}", c));
  report.absorb("api", stats, found);
}

pub const C17: Spec = Spec {
  prop: "C17",
  level: "exploration",
  rule: "part A: generated programs x top-down and bottom-up histories run under CompositeTracker(Rec, CompositeTracker(Rec, EventTracker)); a stack machine demands that every end event closes the innermost open start of the same kind and subject; every task that really ran (task-side log) is bracketed by exactly one execute_start/execute_end carrying the output it returned; completed reads/writes/requires have start and end events and require_end carries the value the requirer received; both Rec children received identical streams; EventTracker::slice() equals the projection of the stream onto its ten kinds with index == position. Part B: random call sequences of all 23 Tracker methods against reference implementations of every Event/EventTracker helper. Non-trivial (A) = nesting depth >=3 with a bottom-up scheduling; distinct by case hash",
  cfg: c17_cfg,
  transform: split_sessions,
  judge: c17_judge,
  opts: composite_opts,
  quick: (16, 8000),
  thorough: (16, 150000),
  extra: Some(c17_extra),
  strategy: None,
  assumptions: &["Rec records every tracker call it receives", "Debug text of EventTracker events is compared with text built from the recorded stream"],
};

// ---------------------------------------------------------------------------------------------------------------------
// C18

fn c18_cfg(t: Tier) -> GenCfg {
  let mut c = bu_cfg(t);
  c.faulty = true;
  c.fault_steps = true;
  c.bottom_up_weight = 3;
  c
}

fn c18_judge(case: &Case, run: &Run, an: &Analysis, stats: &mut Stats) -> CheckResult {
  use crate::interp::{Verdict, L};
  let mut nontrivial = false;
  let mut disarmed_later = false;
  let mut seen_error = false;
  for sess in run.sessions.iter() {
    let Some(first) = sess.builds.first() else { continue; };
    let Some(last) = sess.builds.last() else { continue; };
    // Erroring check calls of this session, in order.
    let errs: Vec<String> = run.log[first.log.start..last.log.end].iter().filter_map(|l| match l {
      L::CCheck { chk, r, verdict: Verdict::Error, .. } => Some(crate::interp::fault_message(*r, *chk)),
      _ => None,
    }).collect();
    stats.class_n("checker_errors", errs.len() as u64);
    if !errs.is_empty() { seen_error = true; } else if seen_error && sess.faults.is_empty() { disarmed_later = true; }
    if errs.len() >= 2 { stats.class("session_with>=2_checker_errors"); }
    if !errs.is_empty() && sess.changed_before.is_empty() { nontrivial = true; }
    if last.dep_errors != errs {
      return Err(Failure::new(format!("[c18-reported] session at step {}: checkers returned errors {:?} but Session::dependency_check_errors() reports {:?}", sess.step, errs, last.dep_errors)));
    }
  }
  if nontrivial && disarmed_later { stats.class("errors_without_change_then_disarmed"); }
  if nontrivial { stats.nontrivial(fingerprint(case)); sample(case, stats); }
  if let Some(t) = an.has(&["panic-internal", "panic-diagnosed"]) { return Err(Failure::new(format!("[c18-abort] {}", t.msg))); }
  // An erroring check counts as an inconsistent one - nothing more (validation stops there, every other recorded
  // dependency is still checked when its turn comes, nothing else is executed or scheduled because of it).
  fail_on(an, &["missing-exec", "bu-missing-schedule", "bu-leftover", "I2-verdict", "bu-verdict", "incomplete-validation", "I3-order", "bu-missed-check", "bu-extra-check", "bu-unscheduled-exec", "bu-unjustified-schedule", "I2-unjustified-exec"])?;
  if exact_only(&case.prog) { fail_on(an, &["I5-unreached-exec"])?; }
  // From-scratch equality is demanded for top-down sessions only: a `require` in the same session as a bottom-up
  // build can return a value left stale by an earlier partial top-down build (finding C03-F1, judged by C03), which
  // has nothing to do with checker errors.
  for f in &an.findings {
    if f.tag != "c01-output" && f.tag != "c01-state" { continue; }
    let has_bu = run.sessions[f.session].builds.iter().any(|b| matches!(b.kind, BuildKind::BottomUp(_)));
    if !has_bu { return Err(Failure::new(format!("[{}] {}", f.tag, f.msg))); }
  }
  Ok(())
}

fn faultable_pairs(p: &Program) -> Vec<(ResId, RChk)> {
  fn walk(b: &[Stmt], out: &mut Vec<(ResId, RChk)>) {
    for s in b {
      match s {
        Stmt::Read { res, chk, faulty: true, .. } | Stmt::Write { res, chk, faulty: true, .. } => {
          let ids: Vec<ResId> = match res { Target::Fixed(r) => vec![*r], Target::Dyn { base, span, .. } => (*base..*base + *span).collect() };
          for r in ids { if !out.contains(&(r, *chk)) { out.push((r, *chk)); } }
        }
        Stmt::If { then, els, .. } => { walk(then, out); walk(els, out); }
        _ => {}
      }
    }
  }
  let mut v = vec![];
  for t in &p.tasks { walk(&t.body, &mut v); }
  v
}

/// Fault enumeration: for sampled cases with at most 6 faultable (resource, checker) pairs, every subset of them is armed
/// before the last session of the history.
fn c18_extra(spec: &Spec, tier: Tier, seed: u64, known: &Known, report: &mut Report) {
  use proptest::strategy::{Strategy, ValueTree};
  let n_cases = match tier { Tier::Quick => 400, Tier::Thorough => 8000 };
  let cfg = (spec.cfg)(tier);
  let strategy = spec_strategy(spec, cfg);
  let rng = proptest::test_runner::TestRng::from_seed(proptest::test_runner::RngAlgorithm::ChaCha, &driver::derive_seed(seed, "C18/enum", 0));
  let mut runner = proptest::test_runner::TestRunner::new_with_rng(proptest::test_runner::Config::default(), rng);
  let mut subsets = 0u64;
  let mut cases_enumerated = 0u64;
  let mut stats = Stats::new();
  for _ in 0..n_cases {
    let Ok(tree) = strategy.new_tree(&mut runner) else { continue; };
    let case = tree.current();
    let pairs = faultable_pairs(&case.prog);
    if pairs.is_empty() || pairs.len() > 6 { continue; }
    let Some(pos) = case.hist.steps.iter().rposition(|s| matches!(s, Step::Session { .. })) else { continue; };
    if pos == 0 { continue; }
    cases_enumerated += 1;
    for mask in 0u32..(1 << pairs.len()) {
      let faults: Vec<(ResId, RChk)> = pairs.iter().enumerate().filter(|(i, _)| mask & (1 << i) != 0).map(|(_, p)| *p).collect();
      let mut c = case.clone();
      c.hist.steps.insert(pos, Step::SetFaults { faults });
      subsets += 1;
      stats.evaluations += 1;
      if let Err(f) = driver::guarded(|| check(spec, &c, &mut stats)) {
        if known.attributed(&f).is_some() { continue; }
        report.violation("case", &serde_json::to_value(&c).unwrap(), &f, &pretty_case(&c));
        report.stats.merge(stats);
        return;
      }
    }
  }
  report.stats.merge(stats);
  report.extra.insert("fault_subsets_enumerated".into(), json!(subsets));
  report.extra.insert("cases_with_all_fault_subsets".into(), json!(cases_enumerated));
}

pub const C18: Spec = Spec {
  prop: "C18",
  level: "fault_enumeration",
  rule: "generated programs whose read dependencies use Faulty checkers (check returns Err while the (resource, checker) pair is in the fault set) x histories that arm and disarm fault sets (none / all / random subsets) between sessions, with and without real changes, top-down and bottom-up; per session the errors returned by checker calls (instrumentation log, in order) must equal Session::dependency_check_errors() (same messages, same order); every erroring check must be reported as an error verdict and be followed by execution (top-down) or scheduling+execution (bottom-up) of the owner, and by nothing else: validation of that task stops there, all other recorded readers/requirers are still checked in their turn, no task is executed or scheduled without its own inconsistent/erroring check, and with exact-only programs nothing runs that a from-scratch build would not run; no build aborts; outputs and resources equal the from-scratch evaluator; thorough tier additionally enumerates all fault subsets for sampled cases; non-trivial = a session with a checker error and no external change (only the error forces re-execution); distinct by case hash",
  cfg: c18_cfg,
  transform: identity,
  judge: c18_judge,
  opts: Opts::default,
  quick: (16, 15000),
  thorough: (16, 250000),
  extra: Some(c18_extra),
  strategy: None,
  assumptions: &["only `check` fails, stamp methods never do (P9)"],
};

// ---------------------------------------------------------------------------------------------------------------------
// C16

fn c16_cfg(t: Tier) -> GenCfg {
  let mut c = bu_cfg(t);
  c.wide = true;
  c.bottom_up_weight = 3;
  // Aborted builds (task failures) are part of the history that must replay identically.
  c.task_panic_share = 2;
  // So are checker errors: the order of Session::dependency_check_errors is part of the digest.
  c.faulty = true;
  c.fault_steps = true;
  c
}

/// Everything observable about a run, as one hashable value.
pub fn run_digest(run: &Run) -> u64 {
  let mut parts: Vec<String> = vec![];
  for s in &run.sessions {
    for b in &s.builds {
      parts.push(format!("{:?}|{:?}|{:?}|{:?}", b.kind, b.result, b.dep_errors, b.state_after));
    }
  }
  fingerprint(&(parts, &run.log))
}

fn c16_judge(case: &Case, run: &Run, an: &Analysis, stats: &mut Stats) -> CheckResult {
  let mut nontrivial = false;
  for b in &an.builds { if b.facts.max_checks_in_frame >= 3 || b.facts.max_queue >= 3 { nontrivial = true; } }
  if nontrivial { stats.nontrivial(fingerprint(case)); sample(case, stats); }
  let d0 = run_digest(run);
  // Unrelated instance in between (different allocation pattern, fresh hash seeds).
  let other = Case { prog: case.prog.clone(), hist: History { steps: case.hist.steps.iter().rev().filter(|s| matches!(s, Step::Session { .. })).cloned().collect() }, inject: None };
  // ... and one whose build is aborted by a rejected cyclic require (search state left behind by a failed insertion must
  // not leak into the next instance).
  let mut cyclic = Case { prog: case.prog.clone(), hist: History { steps: vec![Step::Session { builds: (0..case.prog.n_tasks() as TaskId).map(Build::TopDown).collect() }] }, inject: None };
  let stream: Vec<u16> = (0..12u64).map(|i| (fingerprint(&(fingerprint(case), i)) & 0xffff) as u16).collect();
  gen::inject_cycle_with(&mut cyclic, &stream, false);
  if let Some(Inject::Cycle { guarded, .. }) = &cyclic.inject { if *guarded { cyclic.inject = None; } }
  for k in 0..2 {
    let _ = engine::run_case(&other, &Opts::default());
    if k == 1 { let r = engine::run_case(&cyclic, &Opts::default()); if r.sessions.iter().any(|s| s.builds.iter().any(|b| matches!(&b.result, engine::BuildResult::Panic(m) if m.starts_with("Cyclic")))) { stats.class("replay_after_an_unrelated_instance_with_a_rejected_cycle"); } }
    let again = engine::run_case(case, &Opts::default());
    if run_digest(&again) != d0 {
      if again.log == run.log {
        let brief = |r: &Run| -> Vec<String> { r.sessions.iter().flat_map(|s| s.builds.iter().map(|b| format!("{:?} -> {:?}, dependency-check errors {:?}, resources {:?}", b.kind, b.result, b.dep_errors, b.state_after))).collect() };
        let (a, b) = (brief(run), brief(&again));
        let i = a.iter().zip(b.iter()).position(|(x, y)| x != y).unwrap_or(0);
        return Err(Failure::new(format!("[c16-replay] in-process replay #{}: same event/operation log, but build #{} differs: {} vs {}", k + 1, i, a.get(i).cloned().unwrap_or_default(), b.get(i).cloned().unwrap_or_default())));
      }
      let i = again.log.iter().zip(run.log.iter()).position(|(a, b)| a != b).unwrap_or(again.log.len().min(run.log.len()));
      return Err(Failure::new(format!("[c16-replay] in-process replay #{} differs at log entry {}: {:?} vs {:?}", k + 1, i, run.log.get(i), again.log.get(i))));
    }
  }
  stats.add("in_process_replays", 2);
  // Across processes, for a deterministic subset of cases.
  let every = if std::env::var("PV_C16_ALL_CROSS").is_ok() { 1 } else { 97 };
  if fingerprint(case) % every == 0 && stats.live {
    let dir = std::env::temp_dir().join(format!("pv-c16-{}-{:016x}.json", std::process::id(), fingerprint(case)));
    if std::fs::write(&dir, serde_json::to_string(case).unwrap()).is_ok() {
      let exe = std::env::current_exe().map_err(|e| Failure::new(format!("current_exe: {}", e)));
      if let Ok(exe) = exe {
        for k in 0..2 {
          if let Ok(o) = std::process::Command::new(&exe).arg("trace").arg(&dir).output() {
            let text = String::from_utf8_lossy(&o.stdout);
            if let Some(d) = text.lines().find_map(|l| l.strip_prefix("digest ")) {
              stats.add("cross_process_replays", 1);
              if d.trim() != format!("{:016x}", d0) {
                let _ = std::fs::remove_file(&dir);
                return Err(Failure::new(format!("[c16-replay] replay #{} in a fresh process has digest {} but this process computed {:016x}", k + 1, d.trim(), d0)));
              }
            }
          }
        }
      }
      let _ = std::fs::remove_file(&dir);
    }
  }
  Ok(())
}

pub fn trace_digest_of_file(path: &Path) -> Result<String, String> {
  let text = std::fs::read_to_string(path).map_err(|e| e.to_string())?;
  let case: Case = serde_json::from_str(&text).map_err(|e| e.to_string())?;
  let run = engine::run_case(&case, &Opts::default());
  Ok(format!("{:016x}", run_digest(&run)))
}

pub const C16: Spec = Spec {
  prop: "C16",
  level: "exploration",
  rule: "generated wide programs (many dependencies per task, many readers per resource) x top-down and bottom-up histories; each case is run three times in-process on fresh Pie instances (fresh RandomState per HashMap), with an unrelated instance built in between, and for a deterministic 1/97 subset twice more in freshly spawned processes; the complete unified log (task operations, resource handle creation, checker calls, all tracker events in order) plus results, dependency-check errors and resource states must be identical; non-trivial = a validation frame with >=3 checks or >=3 tasks scheduled at once; distinct by case hash",
  cfg: c16_cfg,
  transform: identity,
  judge: c16_judge,
  opts: Opts::default,
  quick: (8, 5000),
  thorough: (16, 60000),
  extra: None,
  strategy: None,
  assumptions: &["hash seeds are sampled (5 replays per case at most), not enumerated"],
};

// ---------------------------------------------------------------------------------------------------------------------
// C19

fn c19_cfg(t: Tier) -> GenCfg {
  let mut c = GenCfg::for_tier(t);
  c.panic_steps = true;
  c.task_panic_share = 3;
  c
}

fn c19_judge(case: &Case, run: &Run, an: &Analysis, stats: &mut Stats) -> CheckResult {
  use crate::interp::L;
  // Non-triviality: an abort at nesting depth >= 2 followed by a later session executing one of the aborted tasks.
  let mut stack: Vec<TaskId> = vec![];
  let mut aborted_deep: BTreeSet<TaskId> = BTreeSet::new();
  let mut aborts = 0u64;
  let mut nontrivial = false;
  for l in &run.log {
    match l {
      L::TEnter(t) => { if aborted_deep.contains(t) { nontrivial = true; } stack.push(*t); }
      L::TExit(..) => { stack.pop(); }
      L::Aborted => {
        aborts += 1;
        if stack.len() >= 2 { aborted_deep.extend(stack.iter().cloned()); stats.class("abort_at_depth>=2"); }
        stack.clear();
      }
      _ => {}
    }
  }
  stats.class_n("aborted_builds_total", aborts);
  if nontrivial { stats.nontrivial(fingerprint(case)); sample(case, stats); }
  let mut seen_abort = false;
  for (si, sess) in run.sessions.iter().enumerate() {
    for (bi, b) in sess.builds.iter().enumerate() {
      if let engine::BuildResult::Panic(msg) = &b.result {
        match crate::analyze::panic_kind(msg) {
          crate::analyze::PanicKind::Injected => {
            if b.armed == 0 { return Err(Failure::new(format!("[c19] session {} build {}: injected panic without being armed (harness error)", si, bi))); }
          }
          crate::analyze::PanicKind::Internal => {
            return Err(Failure::new(format!("[c19-internal] session {} build {} ({:?}) after {} earlier abort(s) failed with an internal error: {}", si, bi, b.kind, aborts, msg)));
          }
          crate::analyze::PanicKind::TaskPanic => {
            // The program itself fails in this state; the from-scratch evaluator must agree.
            let mut ev = crate::model::Eval::new(&case.prog, sess.state_before.clone());
            let mut model_panics = false;
            for x in sess.builds.iter().take(bi + 1) {
              if let engine::BuildKind::TopDown(t) | engine::BuildKind::Then(t) | engine::BuildKind::Probe(t) = &x.kind { if ev.require_root(*t).is_err() { model_panics = true; break; } }
            }
            if !model_panics { return Err(Failure::new(format!("[c19-task-panic-not-in-model] session {} build {}: a task failed ({}) although a from-scratch build of the current state does not fail", si, bi, msg))); }
          }
          _kind => {
            let what = format!("[c19-spurious-abort] session {} build {} ({:?}) aborted with a diagnosed violation that does not exist in the current state: {}", si, bi, b.kind, msg);
            // Known finding C19-F1: after an aborted execution a task has lost the requires it had recorded before; a
            // reader that reached a generator only through that task then makes the generator's next write look like a
            // hidden dependency.
            if seen_abort && c19_f1_signature(run, b, msg) {
              stats.class("c19_f1_hidden_dependency_after_abort_cut_a_path");
              return Err(Failure::with_sig(what, "C19-F1/hidden-write-after-aborted-intermediate"));
            }
            return Err(Failure::new(what));
          }
        }
        seen_abort = true;
      } else if seen_abort {
        if let Some(f) = an.findings.iter().find(|f| f.session == si && f.build == bi && (f.tag == "c01-output" || f.tag == "c01-state" || f.tag == "missed-violation")) {
          return Err(Failure::new(format!("[c19-unsound-after-abort] {}", f.msg)));
        }
      }
    }
  }
  Ok(())
}

/// Signature of finding C19-F1 for a write-side hidden-dependency abort of build `b` (only meaningful after an earlier
/// abort): the reading task named by the error is, or reaches over its recorded requires, a task whose last execution was
/// aborted (and which therefore lost the requires it had recorded before).
pub fn c19_f1_signature(run: &Run, b: &engine::BuildRec, msg: &str) -> bool {
  if crate::analyze::panic_kind(msg) != crate::analyze::PanicKind::HiddenWrite { return false; }
  let mut sh = crate::model::Shadow::default();
  for l in &run.log[..b.log.end] { sh.feed(l); }
  let reader = msg.split("from reading task 'T").nth(1).and_then(|x| x.split('\'').next()).and_then(|x| x.parse::<u8>().ok());
  let res = msg.split("resource 'r").nth(1).and_then(|x| x.split('\'').next()).and_then(|x| x.parse::<u8>().ok());
  match (reader, res) {
    (Some(s), Some(r)) => {
      // The reader's read edge must be real (task-side log), and the cut path must go through another task whose
      // execution was aborted.
      let really_read = sh.last.get(&s).map(|e| e.ops.iter().any(|d| matches!(d, crate::model::Dep::Read { r: x, .. } if *x == r))).unwrap_or(false);
      really_read && sh.last.iter().any(|(x, e)| !e.complete && *x != s && sh.reaches(s, *x))
    }
    _ => false,
  }
}

/// Read-side companion of `c19_f1_signature` (finding C20-F6): a task executing in a bottom-up build (or in a require of the
/// same session) after an earlier abort reads a generated resource, and its requires so far lead to a task whose last
/// execution was aborted in an earlier build - that task lost the requires through which the generator used to be reached,
/// and a bottom-up build neither schedules nor executes it.
pub fn c20_f6_signature(run: &Run, b: &engine::BuildRec, msg: &str) -> bool {
  if crate::analyze::panic_kind(msg) != crate::analyze::PanicKind::HiddenRead { return false; }
  let reader = msg.split("current executing task 'T").nth(1).and_then(|x| x.split('\'').next()).and_then(|x| x.parse::<u8>().ok());
  let Some(s) = reader else { return false; };
  // Shadow record just before this build was cut: tasks on the stack are executing now, other incomplete tasks were
  // aborted by an earlier build.
  let mut sh = crate::model::Shadow::default();
  let end = (b.log.start..b.log.end).rev().find(|i| matches!(run.log[*i], crate::interp::L::Aborted)).unwrap_or(b.log.end);
  for l in &run.log[..end] { sh.feed(l); }
  sh.last.iter().any(|(y, e)| !e.complete && !sh.stack.contains(y) && *y != s && sh.reaches(s, *y))
}

/// Crash-point enumeration: for sampled cases, abort the designated build at every one of its operation points.
fn c19_extra(spec: &Spec, tier: Tier, seed: u64, known: &Known, report: &mut Report) {
  use proptest::strategy::{Strategy, ValueTree};
  let n_cases = match tier { Tier::Quick => 3000, Tier::Thorough => 40000 };
  let cfg = (spec.cfg)(tier);
  let strategy = spec_strategy(spec, cfg);
  let rng = proptest::test_runner::TestRng::from_seed(proptest::test_runner::RngAlgorithm::ChaCha, &driver::derive_seed(seed, "C19/enum", 0));
  let mut runner = proptest::test_runner::TestRunner::new_with_rng(proptest::test_runner::Config::default(), rng);
  let mut points = 0u64;
  let mut cases_enumerated = 0u64;
  let mut stats = Stats::new();
  for _ in 0..n_cases {
    let Ok(tree) = strategy.new_tree(&mut runner) else { continue; };
    let case = tree.current();
    // The first armed step designates the build to abort.
    let Some(pos) = case.hist.steps.iter().position(|s| matches!(s, Step::ArmPanic { .. })) else { continue; };
    let mut probe = case.clone();
    probe.hist.steps[pos] = Step::ArmPanic { after: 0 };
    let run = engine::run_case(&probe, &Opts::default());
    // Operation points of the first build of the session that follows.
    let target_step = pos + 1;
    let ops = run.sessions.iter().find(|s| s.step == target_step).and_then(|s| s.builds.first()).map(|b| b.ops).unwrap_or(0);
    if ops == 0 { continue; }
    cases_enumerated += 1;
    for k in 1..=ops {
      let mut c = case.clone();
      c.hist.steps[pos] = Step::ArmPanic { after: k };
      points += 1;
      stats.evaluations += 1;
      if let Err(f) = driver::guarded(|| check(spec, &c, &mut stats)) {
        if known.attributed(&f).is_some() { continue; }
        report.violation("case", &serde_json::to_value(&c).unwrap(), &f, &pretty_case(&c));
        report.stats.merge(stats);
        return;
      }
    }
  }
  report.stats.merge(stats);
  report.extra.insert("crash_points_enumerated".into(), json!(points));
  report.extra.insert("cases_with_all_crash_points".into(), json!(cases_enumerated));
  // Aborts caused by diagnosed violations that exist only in some states (cause removed or not afterwards).
  let (shards, cases) = match tier { Tier::Quick => (16, 8000), Tier::Thorough => (16, 120000) };
  let dcfg = super::diag::diag_cfg(tier);
  let scfg = SearchCfg { prop: "C19", label: "diag", seed, shards, cases_per_shard: cases, max_shrink_iters: 3000 };
  let (stats, found) = driver::search(&scfg, known, || super::diag::strategy(dcfg.clone()), |c, s| super::diag::check(c, super::diag::Mode::C19, s), |c| pretty_case(c));
  report.absorb("diag", stats, found);
}

pub const C19: Spec = Spec {
  prop: "C19",
  level: "fault_enumeration",
  rule: "generated static-role programs x top-down histories in which builds are aborted by a panic injected at the k-th task-side operation point (task entry/exit, before/after each read/require/write, inside the write function), at any nesting depth, followed by further sessions on the same instance; random k in the search phase, and for sampled cases every k of the designated build is enumerated; every later build must return the from-scratch result for the then-current state (output and resources), and no build may fail with an internal error or a diagnosed violation (static-role programs contain none); non-trivial = abort at nesting depth >=2 followed by a session that executes one of the aborted tasks again; distinct by case hash",
  cfg: c19_cfg,
  transform: identity,
  judge: c19_judge,
  opts: Opts::default,
  quick: (16, 15000),
  thorough: (16, 250000),
  extra: Some(c19_extra),
  strategy: None,
  assumptions: &["later bottom-up builds after an abort are not judged (no listed property covers them, P10)", "aborts caused by diagnosed violations are exercised by the C05-C07 checks"],
};

// ---------------------------------------------------------------------------------------------------------------------
// C08

fn c08_cfg(t: Tier) -> GenCfg {
  let mut c = bu_cfg(t);
  c.bottom_up_weight = 3;
  c.multi_checker_share = 2;
  c.task_panic_share = 2;
  c
}

fn dump_opts() -> Opts { Opts { composite: false, dump: true } }

type EdgeText = (String, String, String, String);

fn dep_text(d: &crate::model::Dep) -> EdgeText {
  use crate::interp::{ochk_text, ostamp_text, rchk_text, rstamp_text};
  use crate::model::Dep;
  match d {
    Dep::Require { dst, chk, out } => ("require".into(), format!("T{}", dst), ochk_text(*chk), ostamp_text(*chk, out)),
    Dep::Read { r, chk, faulty, seen } => ("read".into(), format!("r{}", r), rchk_text(*chk, *faulty), rstamp_text(*chk, *seen)),
    Dep::Write { r, chk, faulty, val, .. } => ("write".into(), format!("r{}", r), rchk_text(*chk, *faulty), rstamp_text(*chk, *val)),
  }
}

/// Dump equality after every session: Ok(true) when the case accessed one target with two checkers (finding class).
fn c08_dump(run: &Run, stats: &mut Stats) -> Result<bool, Failure> {
  use crate::model::{DepTarget, Shadow};
  let mut sh = Shadow::default();
  let mut pos = 0usize;
  let mut any_multi = false;
  for (si, sess) in run.sessions.iter().enumerate() {
    let Some(last) = sess.builds.last() else { continue; };
    for l in &run.log[pos..last.log.end] { sh.feed(l); }
    pos = last.log.end;
    // After an aborted build the aborted tasks keep the dependencies they had created so far (they are incomplete in
    // the shadow record and skipped below); every completed task is still compared.
    if sess.builds.iter().any(|b| matches!(b.result, engine::BuildResult::Panic(_))) { stats.class("dump_compared_after_an_abort"); }
    for (t, e) in sh.last.iter() {
      if !e.complete { continue; }
      let key = format!("T{}", t);
      let Some(node) = sess.dump_after.iter().find(|n| n.is_task && n.key == key) else {
        return Err(Failure::new(format!("[c08-dump] after session {}: T{} has executed but the store has no node for it", si, t)));
      };
      let want_out = e.out.map(|o| format!("{:?}", o));
      if node.output != want_out {
        return Err(Failure::new(format!("[c08-dump] after session {}: store caches output {:?} for T{}, its last execution returned {:?}", si, node.output, t, want_out)));
      }
      // Expected: every distinct (target, checker) of the last execution, in order of first occurrence.
      let mut seen: Vec<(DepTarget, String)> = vec![];
      let mut want: Vec<EdgeText> = vec![];
      for d in &e.ops {
        let tx = dep_text(d);
        let k = (d.target(), tx.2.clone());
        if !seen.contains(&k) { seen.push(k); want.push(tx); }
      }
      let got: Vec<EdgeText> = node.edges.iter().map(|x| (x.kind.to_string(), x.target.clone(), x.checker.clone(), x.stamp.clone())).collect();
      if got != want {
        let multi = e.multi_checker_targets();
        let msg = format!("[c08-dump] after session {}: store holds {:?} for T{}, its last execution created {:?}", si, got, t, want);
        if !multi.is_empty() {
          any_multi = true;
          let name = |d: &DepTarget| match d { DepTarget::Task(x) => format!("T{}", x), DepTarget::Res(x) => format!("r{}", x) };
          let names: Vec<String> = multi.iter().map(name).collect();
          let strip = |v: &Vec<EdgeText>| -> Vec<EdgeText> { v.iter().filter(|x| !names.contains(&x.1)).cloned().collect() };
          if strip(&got) == strip(&want) {
            // Which target differs first?
            let first = multi.iter().find(|m| { let n = name(m); got.iter().filter(|x| x.1 == n).collect::<Vec<_>>() != want.iter().filter(|x| x.1 == n).collect::<Vec<_>>() });
            return match first {
              Some(DepTarget::Task(_)) => { stats.class("c08_f1_two_checkers_on_one_required_task"); Err(Failure::with_sig(msg, "C08-F1/require-two-checkers-last-wins")) }
              Some(DepTarget::Res(_)) => { stats.class("c08_f2_two_checkers_on_one_resource"); Err(Failure::with_sig(msg, "C08-F2/resource-two-checkers-first-wins")) }
              None => Err(Failure::new(msg)),
            };
          }
        }
        return Err(Failure::new(msg));
      }
    }
    // Resource nodes: incoming edges come exactly from the tasks that recorded a dependency on the resource.
    for n in sess.dump_after.iter().filter(|n| !n.is_task) {
      let Some(r) = n.key.strip_prefix('r').and_then(|x| x.parse::<u8>().ok()) else { continue; };
      let mut want: Vec<String> = sh.last.iter().filter(|(_, e)| e.ops.iter().any(|d| d.target() == DepTarget::Res(r))).map(|(t, _)| format!("T{}", t)).collect();
      let mut got = n.incoming.clone();
      want.sort(); got.sort(); got.dedup();
      if got != want {
        return Err(Failure::new(format!("[c08-dump] after session {}: r{} has incoming dependencies from {:?}, the tasks whose last execution used it are {:?}", si, r, got, want)));
      }
    }
    for n in sess.dump_after.iter().filter(|n| n.is_task) {
      let complete = n.key.strip_prefix('T').and_then(|x| x.parse::<u8>().ok()).and_then(|t| sh.last.get(&t)).map(|e| e.complete).unwrap_or(false);
      if complete && n.edges.iter().any(|e| e.kind == "reserved") {
        return Err(Failure::new(format!("[c08-dump] after session {}: a reserved require dependency is left in the store for the completed task {}", si, n.key)));
      }
    }
  }
  let multi_case = any_multi || sh.last.values().any(|e| !e.multi_checker_targets().is_empty());
  Ok(multi_case)
}

fn c08_judge(case: &Case, run: &Run, an: &Analysis, stats: &mut Stats) -> CheckResult {
  let mut nontrivial = false;
  for b in &an.builds { if b.facts.dropped_require && b.facts.added_require { nontrivial = true; } }
  if nontrivial { stats.nontrivial(fingerprint(case)); sample(case, stats); }
  let multi_case = c08_dump(run, stats)?;
  if multi_case { stats.class("case_with_two_checkers_on_one_target"); return Ok(()); }
  // Behavioural consequences (event level): nothing is validated or scheduled through a dependency the task no longer
  // has, and every dependency it has is.
  fail_on(an, &["I3-order", "bu-extra-check", "bu-missed-check", "stamp", "incomplete-validation", "panic-internal"])
}

/// Dump equality on programs with one state-dependent violation (guarded hidden dependency / overlap / cycle) and
/// injected panics: whatever aborted, every task whose last execution *completed* holds exactly that execution's
/// dependencies (rejected edges, aborted neighbours and later re-insertions included).
pub fn c08_diag_check(case: &Case, stats: &mut Stats) -> CheckResult {
  let run = engine::run_case(case, &dump_opts());
  let aborted = run.sessions.iter().any(|s| s.builds.iter().any(|b| matches!(b.result, engine::BuildResult::Panic(_))));
  if aborted { stats.class("dump_compared_in_case_with_diagnosed_or_injected_abort"); stats.nontrivial(fingerprint(case)); sample(case, stats); }
  c08_dump(&run, stats).map(|_| ())
}

fn c08_extra(_spec: &Spec, tier: Tier, seed: u64, known: &Known, report: &mut Report) {
  let (shards, cases) = match tier { Tier::Quick => (16, 6000), Tier::Thorough => (16, 100000) };
  let dcfg = super::diag::diag_cfg(tier);
  let scfg = SearchCfg { prop: "C08", label: "diag", seed, shards, cases_per_shard: cases, max_shrink_iters: 3000 };
  let (stats, found) = driver::search(&scfg, known, || super::diag::strategy(dcfg.clone()), |c, s| c08_diag_check(c, s), |c| pretty_case(c));
  report.absorb("diag", stats, found);
}

pub const C08: Spec = Spec {
  prop: "C08",
  level: "exploration",
  rule: "generated programs whose tasks change which tasks and resources they use with resource values x histories flipping those values (top-down and bottom-up); after every session the read-only store dump (hook) must equal, for every executed task, the dependencies its last execution created according to the task-side log: kind, target, checker text, stamp text, in creation order, plus cached output; resource nodes have incoming edges exactly from their current users; no reserved edge remains; event level: nothing validated/scheduled through a dropped dependency and every recorded dependency checked. 20% of cases repeat an access with a different checker (recorded findings C08-F1/F2). A second search (label diag) compares the dump of every completed task on programs with one state-dependent violation (guarded hidden dependency / overlap / cycle) and injected panics, i.e. across diagnosed aborts, rejected edges and later re-insertions. Non-trivial = a task re-executed with requires both dropped and added; distinct by case hash",
  cfg: c08_cfg,
  transform: identity,
  judge: c08_judge,
  opts: dump_opts,
  quick: (16, 15000),
  thorough: (16, 250000),
  extra: Some(c08_extra),
  strategy: None,
  assumptions: &["Debug text of checkers and stamps identifies them (true for the harness's and pie's built-in checkers)", "hook: Pie::verif_dump (feature gohla_pie_verif), read-only"],
};

// ---------------------------------------------------------------------------------------------------------------------
// Runner shared by all specs

pub fn spec_strategy(spec: &Spec, cfg: GenCfg) -> proptest::strategy::BoxedStrategy<Case> {
  use proptest::strategy::Strategy;
  match spec.strategy { Some(f) => f(cfg), None => gen::case_strategy(cfg).boxed() }
}

pub fn spec_of(prop: &str) -> Option<&'static Spec> {
  match prop {
    "C01" => Some(&C01),
    "C02" => Some(&C02),
    "C03" => Some(&C03),
    "C04" => Some(&C04),
    "C08" => Some(&C08),
    "C09" => Some(&C09),
    "C16" => Some(&C16),
    "C19" => Some(&C19),
    "C20" => Some(&super::roles::C20),
    "C05" => Some(&super::inject::C05),
    "C06" => Some(&super::inject::C06),
    "C07" => Some(&super::inject::C07),
    "C17" => Some(&C17),
    "C18" => Some(&C18),
    _ => None,
  }
}

pub fn replay(prop: &str, _label: &str, path: &Path) -> Result<CheckResult, String> {
  let spec = spec_of(prop).ok_or_else(|| format!("no spec for {}", prop))?;
  let (_, _, case): (_, _, Case) = driver::load_replay(path)?;
  if prop == "C20" && _label == "roles" { return Ok(super::roles::replay_roles(&case)); }
  if prop == "C06" && _label == "after-aborts" { return Ok(super::inject::replay_c06_after_aborts(&case)); }
  if prop == "C20" && _label == "after-aborts" { return Ok(driver::guarded(|| super::roles::check_after_aborts(&case, &mut Stats::dummy()))); }
  if prop == "C20" && _label == "guarded" { return Ok(driver::guarded(|| super::diag::check(&case, super::diag::Mode::C20, &mut Stats::dummy()))); }
  if prop == "C03" && _label == "long-session" { return Ok(driver::guarded(|| check(&C03_LONG, &case, &mut Stats::dummy()))); }
  if prop == "C08" && _label == "diag" { return Ok(driver::guarded(|| c08_diag_check(&case, &mut Stats::dummy()))); }
  if prop == "C19" && _label == "diag" { return Ok(driver::guarded(|| super::diag::check(&case, super::diag::Mode::C19, &mut Stats::dummy()))); }
  Ok(driver::guarded(|| check(spec, &case, &mut Stats::dummy())))
}

pub fn run(prop: &str, tier: Tier, seed: u64) -> i32 {
  let Some(spec) = spec_of(prop) else { return 2; };
  let mut report = Report::new(prop, tier, seed, spec.level, spec.rule);
  let known = Known::load(prop);
  super::prologue(&mut report, &known);
  let (shards, cases) = match tier { Tier::Quick => spec.quick, Tier::Thorough => spec.thorough };
  let cfg = (spec.cfg)(tier);
  let scfg = SearchCfg { prop, label: "case", seed, shards, cases_per_shard: cases, max_shrink_iters: 3000 };
  let (stats, found) = driver::search(&scfg, &known, || spec_strategy(spec, cfg.clone()), |c, s| check(spec, c, s), |c| pretty_case(c));
  report.absorb("case", stats, found);
  // Long histories of small programs (both tiers): state that only builds up over many sessions.
  if report.violations.is_empty() && prop != "C16" {
    let mut long = (spec.cfg)(tier);
    long.max_tasks = 5;
    long.max_steps = match tier { Tier::Quick => 120, Tier::Thorough => 300 };
    let cases_long = match tier { Tier::Quick => 40, Tier::Thorough => 1500 };
    let scfg = SearchCfg { prop, label: "long", seed, shards: 16, cases_per_shard: cases_long, max_shrink_iters: 1500 };
    let (stats, found) = driver::search(&scfg, &known, || spec_strategy(spec, long.clone()), |c, s| check(spec, c, s), |c| pretty_case(c));
    report.extra.insert("long_history_cases".into(), json!(stats.evaluations));
    report.absorb("case", stats, found);
  }
  // Thorough tier: a second search over larger programs and longer histories (fewer, bigger cases).
  if tier == Tier::Thorough && report.violations.is_empty() {
    let mut big = (spec.cfg)(tier);
    big.max_tasks = 20; big.max_src = 5; big.max_gen = 7; big.max_stmts = 9; big.max_steps = 24;
    let cases_big = if prop == "C16" { 4000 } else { 20000 };
    let scfg = SearchCfg { prop, label: "large", seed, shards: 16, cases_per_shard: cases_big, max_shrink_iters: 3000 };
    let (stats, found) = driver::search(&scfg, &known, || spec_strategy(spec, big.clone()), |c, s| check(spec, c, s), |c| pretty_case(c));
    report.extra.insert("large_cases".into(), json!(stats.evaluations));
    report.absorb("case", stats, found);
  }
  if let Some(extra) = spec.extra { extra(spec, tier, seed, &known, &mut report); }
  // Coverage-guided campaign (thorough tier) for the properties whose cases are plain program x history values.
  if tier == Tier::Thorough && report.violations.is_empty() && std::env::var("PV_NO_FUZZ").is_err() {
    // C16 is excluded (each evaluation replays the case five times, partly in fresh processes).
    if ["C01", "C02", "C03", "C04", "C05", "C06", "C07", "C08", "C09", "C17", "C18", "C19", "C20"].contains(&prop) { crate::fuzz::campaign(prop, 300000, 16, &mut report); }
    let subs: &[&str] = match prop { "C19" => &["C19:diag"], "C20" => &["C20:guarded", "C20:after-aborts"], "C08" => &["C08:diag"], "C06" => &["C06:after-aborts"], _ => &[] };
    for k in subs { if report.violations.is_empty() { crate::fuzz::campaign(k, 150000, 16, &mut report); } }
  }
  report.assumptions = spec.assumptions.iter().map(|s| s.to_string()).collect();
  report.finish()
}
