//! Properties decided on generated task programs × histories run against a real Pie instance:
//! C01, C02, C03, C04 (and, through further specs, C09, C16, C17, C18, C20a).

use std::collections::BTreeSet;
use std::path::Path;

use serde_json::json;

use crate::analyze::{analyze, Analysis};
use crate::driver::{self, fingerprint, CheckResult, Failure, Known, Report, SearchCfg, Stats, Tier};
use crate::engine::{self, BuildKind, Opts, Run};
use crate::gen::{self, GenCfg};
use crate::lang::*;
use crate::model::DepTarget;

pub struct Spec {
  pub prop: &'static str,
  pub level: &'static str,
  pub rule: &'static str,
  pub cfg: fn(Tier) -> GenCfg,
  pub transform: fn(&Case) -> Case,
  pub judge: fn(&Case, &Run, &Analysis, &mut Stats) -> CheckResult,
  pub opts: fn() -> Opts,
  pub quick: (u32, u32),
  pub thorough: (u32, u32),
  pub assumptions: &'static [&'static str],
}

pub fn check(spec: &Spec, case: &Case, stats: &mut Stats) -> CheckResult {
  let tcase = (spec.transform)(case);
  let run = engine::run_case(&tcase, &(spec.opts)());
  let an = analyze(&tcase, &run);
  common_classes(&tcase, &an, stats);
  (spec.judge)(&tcase, &run, &an, stats)
}

fn common_classes(case: &Case, an: &Analysis, stats: &mut Stats) {
  if !stats.live { return; }
  stats.class_n("sessions", case.hist.steps.iter().filter(|s| matches!(s, Step::Session { .. })).count() as u64);
  stats.class_n("changes", case.hist.steps.iter().filter(|s| matches!(s, Step::Change { .. })).count() as u64);
  let mut execs = 0u64;
  let mut reused = 0u64;
  let mut checks = 0u64;
  for b in &an.builds {
    if matches!(b.kind, BuildKind::Probe(_)) { continue; }
    execs += b.executed.len() as u64;
    reused += b.facts.reused.len() as u64;
    checks += b.facts.checks;
    if b.facts.early_cutoff { stats.class("build_with_early_cutoff"); }
    if b.facts.dropped_require { stats.class("build_where_task_dropped_a_require"); }
    if b.facts.added_require { stats.class("build_where_task_added_a_require"); }
    if b.facts.coarse_ignored_change { stats.class("build_where_coarse_checker_ignored_a_change"); }
    if !b.facts.reused.is_empty() && !b.facts.re_executed.is_empty() { stats.class("build_with_mixed_reuse"); }
    if b.facts.max_checks_in_frame >= 3 { stats.class("build_with_frame>=3_checks"); }
    if matches!(b.kind, BuildKind::BottomUp(_)) {
      stats.class("bottom_up_builds");
      if b.facts.max_queue >= 3 { stats.class("bottom_up_with_>=3_queued"); }
      if b.facts.bu_nested_drain { stats.class("bottom_up_with_nested_drain"); }
      if b.facts.bu_first_required { stats.class("bottom_up_with_first_time_require"); }
      if b.facts.bu_cutoff { stats.class("bottom_up_with_cutoff"); }
      if b.executed.len() >= 2 { stats.class("bottom_up_executing>=2"); }
    }
    if b.panic.is_some() { stats.class("aborted_builds"); }
  }
  stats.class_n("task_executions", execs);
  stats.class_n("task_reuses", reused);
  stats.class_n("dependency_checks", checks);
}

fn fail_on(an: &Analysis, tags: &[&'static str]) -> CheckResult {
  match an.has(tags) {
    Some(t) => Err(Failure::new(format!("[{}] {}", t.tag, t.msg))),
    None => Ok(()),
  }
}

fn sample(case: &Case, stats: &mut Stats) {
  stats.sample(|| json!(pretty_case(case)));
}

// ---------------------------------------------------------------------------------------------------------------------
// History transforms

pub fn identity(c: &Case) -> Case { c.clone() }

/// After every session, a probe session requiring the same roots again (idempotence).
pub fn probe_same_roots(c: &Case) -> Case {
  let mut steps = vec![];
  for s in &c.hist.steps {
    steps.push(s.clone());
    if let Step::Session { builds } = s {
      let mut roots = vec![];
      for b in builds {
        match b {
          Build::TopDown(t) => roots.push(*t),
          Build::BottomUp { then, .. } => roots.extend(then.iter().cloned()),
        }
      }
      if !roots.is_empty() { steps.push(Step::Probe { roots }); }
    }
  }
  Case { prog: c.prog.clone(), hist: History { steps } }
}

/// After every session that contains a bottom-up build, a probe session requiring every task.
pub fn probe_all_after_bottom_up(c: &Case) -> Case {
  let mut steps = vec![];
  for s in &c.hist.steps {
    steps.push(s.clone());
    if let Step::Session { builds } = s {
      if builds.iter().any(|b| matches!(b, Build::BottomUp { .. })) {
        steps.push(Step::Probe { roots: (0..c.prog.n_tasks() as TaskId).collect() });
      }
    }
  }
  Case { prog: c.prog.clone(), hist: History { steps } }
}

// ---------------------------------------------------------------------------------------------------------------------
// C01

fn c01_judge(case: &Case, run: &Run, an: &Analysis, stats: &mut Stats) -> CheckResult {
  // Non-trivial: a session after a change with mixed reuse, or an externally modified generated resource whose writer
  // was validated in the next session.
  let mut nontrivial = false;
  for (si, sess) in run.sessions.iter().enumerate() {
    if sess.changed_before.is_empty() { continue; }
    let mut reused = false;
    let mut reexec = false;
    let mut touched: BTreeSet<TaskId> = BTreeSet::new();
    for b in an.builds.iter().filter(|b| b.session == si) {
      reused |= !b.facts.reused.is_empty();
      reexec |= !b.facts.re_executed.is_empty();
      touched.extend(b.facts.reused.iter().cloned());
      touched.extend(b.facts.executed.iter().cloned());
    }
    if reused && reexec { nontrivial = true; stats.class("session_after_change_with_mixed_reuse"); }
    for r in &sess.changed_before {
      if let Some(w) = case.prog.writer_of(*r) {
        if touched.contains(&w) { nontrivial = true; stats.class("generated_resource_changed_externally_then_writer_validated"); }
      }
    }
  }
  if nontrivial { stats.nontrivial(fingerprint(case)); sample(case, stats); }
  fail_on(an, &["c01-output", "c01-state", "panic-internal", "missed-violation"])
}

fn c01_cfg(t: Tier) -> GenCfg { GenCfg::for_tier(t) }

pub const C01: Spec = Spec {
  prop: "C01",
  level: "exploration",
  rule: "proptest-generated static-role task programs (value-dependent requires/reads/writes, all checker kinds, exact write checkers) x histories of top-down sessions and external changes to source and generated resources; after every returning require the output and the whole resource state are compared with a from-scratch evaluator run on the state the session started in; non-trivial = a session after a change in which some task was reused and some re-executed, or a generated resource changed externally before a session validating its writer; distinct by case hash",
  cfg: c01_cfg,
  transform: identity,
  judge: c01_judge,
  opts: Opts::default,
  quick: (8, 15000),
  thorough: (16, 20000),
  assumptions: &["from-scratch evaluator (model.rs) is the specification of a clean build", "external changes only between sessions (P1)", "programs obey the static-role discipline of DESIGN.md §4.2"],
};

// ---------------------------------------------------------------------------------------------------------------------
// C02

fn exact_only(p: &Program) -> bool {
  fn block(b: &[Stmt]) -> bool {
    b.iter().all(|s| match s {
      Stmt::Read { chk, .. } | Stmt::Write { chk, .. } => *chk == RChk::Exact,
      Stmt::Require { chk, .. } => matches!(chk, OChk::Equals | OChk::IEquals),
      Stmt::If { then, els, .. } => block(then) && block(els),
    })
  }
  p.tasks.iter().all(|t| block(&t.body))
}

fn c02_judge(case: &Case, run: &Run, an: &Analysis, stats: &mut Stats) -> CheckResult {
  let exact = exact_only(&case.prog);
  if exact { stats.class("exact_only_program"); }
  let mut nontrivial = false;
  for b in &an.builds {
    if matches!(b.kind, BuildKind::Probe(_)) { continue; }
    let after_change = !run.sessions[b.session].changed_before.is_empty();
    if after_change && b.facts.max_checks_in_frame >= 2 && (b.facts.early_cutoff || b.facts.dropped_require) { nontrivial = true; }
  }
  if nontrivial { stats.nontrivial(fingerprint(case)); sample(case, stats); }
  fail_on(an, &["I1-double-exec", "I2-unjustified-exec", "I2-verdict", "I3-order"])?;
  // I4: probes execute nothing.
  for b in &an.builds {
    if let BuildKind::Probe(t) = b.kind {
      if !b.executed.is_empty() {
        return Err(Failure::new(format!("[I4-idempotence] session {}: requiring T{} again with nothing changed executed {:?}", b.session, t, b.executed)));
      }
    }
  }
  // I5: with exact checkers nothing is executed that a from-scratch build would not execute.
  if exact { fail_on(an, &["I5-unreached-exec"])?; }
  Ok(())
}

fn c02_cfg(t: Tier) -> GenCfg { GenCfg::for_tier(t) }

pub const C02: Spec = Spec {
  prop: "C02",
  level: "exploration",
  rule: "same generated programs x top-down histories (40% use only exact checkers, multi-access with the same checker included); every session is followed by a probe session requiring the same roots; a trace acceptor checks per validation frame: checks are a prefix of the task's dependency list in creation order (from the task-side log), stop at the first inconsistency, every verdict equals the checker relation, an execution only after an inconsistent/erroneous check or without cached output, at most one execution per task per session, probes execute nothing, and with exact-only programs executed tasks are a subset of what the from-scratch evaluator reaches; non-trivial = build after a change with a frame of >=2 checks and (early cut-off or a task dropping a require); distinct by case hash",
  cfg: c02_cfg,
  transform: probe_same_roots,
  judge: c02_judge,
  opts: Opts::default,
  quick: (8, 15000),
  thorough: (16, 20000),
  assumptions: &["task-side log is ground truth for what a task's last execution did", "checker relations of model.rs (O4)"],
};

// ---------------------------------------------------------------------------------------------------------------------
// C03

fn bu_cfg(t: Tier) -> GenCfg {
  let mut c = GenCfg::for_tier(t);
  c.bottom_up = true;
  c.bottom_up_weight = 5;
  c
}

/// Failures in probe/then builds that follow a bottom-up build; attributed to C03-F1 by the model-only signature.
fn c03_judge(case: &Case, run: &Run, an: &Analysis, stats: &mut Stats) -> CheckResult {
  let _ = case;
  let mut nontrivial = false;
  for b in &an.builds {
    if matches!(b.kind, BuildKind::BottomUp(_)) && b.executed.len() >= 2 && (b.facts.bu_cutoff || b.facts.dropped_require || b.facts.added_require || b.facts.bu_nested_drain || b.facts.bu_first_required) { nontrivial = true; }
  }
  if nontrivial { stats.nontrivial(fingerprint(case)); sample(case, stats); }
  fail_on(an, &["panic-internal", "bu-leftover", "bu-missing-schedule", "bu-missed-check", "bu-undrained", "missing-exec"])?;
  // Which bottom-up session does a judged build belong to?
  let mut last_bu: Option<usize> = None;
  for (si, sess) in run.sessions.iter().enumerate() {
    let has_bu = sess.builds.iter().any(|b| matches!(b.kind, BuildKind::BottomUp(_)));
    if has_bu { last_bu = Some(si); }
    let judged = has_bu || (sess.probe && last_bu == Some(si.wrapping_sub(1)));
    if !judged { continue; }
    let bu = last_bu.unwrap();
    let stale: Vec<(TaskId, DepTarget)> = an.stale_before_bu.get(&bu).cloned().unwrap_or_default();
    let bu_exec = an.bu_executed.get(&bu).cloned().unwrap_or_default();
    let stale_tasks: BTreeSet<TaskId> = stale.iter().map(|x| x.0).filter(|t| !bu_exec.contains(t)).collect();
    for b in an.builds.iter().filter(|b| b.session == si) {
      if matches!(b.kind, BuildKind::BottomUp(_)) { continue; }
      let executed_known: Vec<TaskId> = b.executed.iter().cloned().filter(|t| b.completed_before.contains(t)).collect();
      let mismatch = an.findings.iter().find(|f| f.session == si && f.build == b.build && (f.tag == "c01-output" || f.tag == "c01-state"));
      if executed_known.is_empty() && mismatch.is_none() { continue; }
      // C03-F1 signature.
      let roots: Vec<(TaskId, Option<DepTarget>)> = an.root_causes.iter().filter(|r| r.0 == si && r.1 == b.build && b.completed_before.contains(&r.2)).map(|r| (r.2, r.3)).collect();
      let roots_explained = !stale_tasks.is_empty() && roots.iter().all(|(t, target)| match target { Some(tg) => stale.contains(&(*t, *tg)) && !bu_exec.contains(t), None => false });
      let attributed = if !executed_known.is_empty() { roots_explained && !roots.is_empty() } else { !stale_tasks.is_empty() };
      let msg = match mismatch {
        Some(m) => format!("[c03-not-up-to-date] after the bottom-up build of session {}: {}", bu, m.msg),
        None => format!("[c03-not-up-to-date] after the bottom-up build of session {}: requiring {:?} in session {} executed known tasks {:?} (root causes {:?})", bu, b.kind, si, executed_known, roots),
      };
      if attributed {
        stats.class("c03_f1_stale_after_partial_top_down");
        return Err(Failure::with_sig(msg, "C03-F1/stale-before-bottom-up"));
      }
      return Err(Failure::new(msg));
    }
  }
  Ok(())
}

pub const C03: Spec = Spec {
  prop: "C03",
  level: "exploration",
  rule: "generated static-role programs x histories in which every batch of external changes (sources and generated resources) is reported completely to a bottom-up build, with top-down sessions and same-session requires interleaved; after each bottom-up session a probe session requires every task: no task that had completed before may execute and outputs/resources must equal the from-scratch evaluator; the acceptor additionally demands that every recorded reader/writer of a reported or rewritten resource and every recorded requirer of an executed task is checked, that every inconsistent check schedules, and that nothing stays scheduled; non-trivial = bottom-up build executing >=2 tasks with a cut-off, a changed require set, a nested drain or a first-time require; distinct by case hash",
  cfg: bu_cfg,
  transform: probe_all_after_bottom_up,
  judge: c03_judge,
  opts: Opts::default,
  quick: (8, 15000),
  thorough: (16, 20000),
  assumptions: &["complete report = every resource changed externally since the last complete bottom-up build (tracked by the history builder)", "C03-F1 (task left stale by a partial top-down build) is attributed by a model-only signature"],
};

// ---------------------------------------------------------------------------------------------------------------------
// C04

fn c04_judge(case: &Case, _run: &Run, an: &Analysis, stats: &mut Stats) -> CheckResult {
  let mut nontrivial = false;
  for b in &an.builds {
    if matches!(b.kind, BuildKind::BottomUp(_)) && b.facts.max_queue >= 3 && (b.facts.bu_cutoff || b.facts.bu_nested_drain) { nontrivial = true; }
  }
  if nontrivial { stats.nontrivial(fingerprint(case)); sample(case, stats); }
  // Only bottom-up builds are judged here.
  for f in &an.findings {
    let is_bu = an.builds.iter().any(|b| b.session == f.session && b.build == f.build && matches!(b.kind, BuildKind::BottomUp(_)));
    if !is_bu { continue; }
    if ["I1-double-exec", "bu-unscheduled-exec", "bu-order", "bu-unjustified-schedule", "bu-unrelated-drain", "bu-verdict", "bu-extra-check", "I2-unjustified-exec"].contains(&f.tag) {
      return Err(Failure::new(format!("[{}] {}", f.tag, f.msg)));
    }
  }
  Ok(())
}

fn c04_cfg(t: Tier) -> GenCfg {
  let mut c = bu_cfg(t);
  c.wide = true;
  c
}

pub const C04: Spec = Spec {
  prop: "C04",
  level: "exploration",
  rule: "generated static-role programs (wide: more dependencies per task) x histories of completely reported change sets; a bottom-up trace acceptor checks: every execution is of a task scheduled by a check that its own checker (and the harness's relation) judged inconsistent, or of a never-completed task; at most one execution per task; when a scheduled task starts, no other scheduled task is reachable from it over recorded requires; consistent checks never schedule; tasks drained by a nested require are dependencies of the required task; non-trivial = >=3 tasks scheduled at once and (a consistent check cut scheduling off or a nested require drained a scheduled dependency); distinct by case hash",
  cfg: c04_cfg,
  transform: identity,
  judge: c04_judge,
  opts: Opts::default,
  quick: (8, 15000),
  thorough: (16, 20000),
  assumptions: &["recorded require graph = shadow record built from the task-side log"],
};

// ---------------------------------------------------------------------------------------------------------------------
// Runner shared by all specs

pub fn spec_of(prop: &str) -> Option<&'static Spec> {
  match prop {
    "C01" => Some(&C01),
    "C02" => Some(&C02),
    "C03" => Some(&C03),
    "C04" => Some(&C04),
    _ => None,
  }
}

pub fn replay(prop: &str, _label: &str, path: &Path) -> Result<CheckResult, String> {
  let spec = spec_of(prop).ok_or_else(|| format!("no spec for {}", prop))?;
  let (_, _, case): (_, _, Case) = driver::load_replay(path)?;
  Ok(driver::guarded(|| check(spec, &case, &mut Stats::dummy())))
}

pub fn run(prop: &str, tier: Tier, seed: u64) -> i32 {
  let Some(spec) = spec_of(prop) else { return 2; };
  let mut report = Report::new(prop, tier, seed, spec.level, spec.rule);
  let known = Known::load(prop);
  super::prologue(&mut report, &known);
  let (shards, cases) = match tier { Tier::Quick => spec.quick, Tier::Thorough => spec.thorough };
  let cfg = (spec.cfg)(tier);
  let scfg = SearchCfg { prop, label: "case", seed, shards, cases_per_shard: cases, max_shrink_iters: 3000 };
  let (stats, found) = driver::search(&scfg, &known, || gen::case_strategy(cfg.clone()), |c, s| check(spec, c, s), |c| pretty_case(c));
  report.absorb("case", stats, found);
  report.assumptions = spec.assumptions.iter().map(|s| s.to_string()).collect();
  report.finish()
}
