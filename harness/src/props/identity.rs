//! C15: task and resource identity is (concrete type, value).

use std::cell::RefCell;
use std::collections::hash_map::DefaultHasher;
use std::collections::{BTreeMap, BTreeSet};
use std::hash::{Hash, Hasher};
use std::path::Path;
use std::rc::Rc;
use std::sync::Arc;

use pie::resource::map::{GetGlobalMap, MapEqualsChecker, MapKey};
use pie::task::EqualsChecker;
use pie::tracker::Tracker;
use pie::trait_object::KeyObj;
use pie::{Context, Pie, Task};
use proptest::prelude::*;
use serde::{Deserialize, Serialize};
use serde_json::json;

use crate::driver::{self, fingerprint, CheckResult, Failure, Known, Report, SearchCfg, Stats, Tier};

// Families with identical representation, hash and Debug text.
macro_rules! fam {
  ($name:ident, $res:ident, $tag:expr) => {
    #[derive(Clone, Copy, PartialEq, Eq, Hash)]
    pub struct $name(pub u8);
    impl std::fmt::Debug for $name { fn fmt(&self, f: &mut std::fmt::Formatter<'_>) -> std::fmt::Result { write!(f, "K({})", self.0) } }
    #[derive(Clone, Copy, PartialEq, Eq, Hash)]
    pub struct $res(pub u8);
    impl std::fmt::Debug for $res { fn fmt(&self, f: &mut std::fmt::Formatter<'_>) -> std::fmt::Result { write!(f, "R({})", self.0) } }
    impl MapKey for $res { type Value = u8; }
    impl Task for $name {
      type Output = (u8, u8, Option<u8>);
      fn execute<C: Context>(&self, ctx: &mut C) -> Self::Output {
        let v = ctx.read(&$res(self.0), MapEqualsChecker).ok().and_then(|r| r.copied());
        ($tag, self.0, v)
      }
    }
  };
}
fam!(A, RA, 0u8);
fam!(B, RB, 1u8);

// Zero-sized families: unit structs with identical (empty) representation, hash, Debug text and - when boxed - address.
macro_rules! zfam {
  ($name:ident, $res:ident, $tag:expr) => {
    #[derive(Clone, Copy, PartialEq, Eq, Hash)]
    pub struct $name;
    impl std::fmt::Debug for $name { fn fmt(&self, f: &mut std::fmt::Formatter<'_>) -> std::fmt::Result { write!(f, "Z") } }
    #[derive(Clone, Copy, PartialEq, Eq, Hash)]
    pub struct $res;
    impl std::fmt::Debug for $res { fn fmt(&self, f: &mut std::fmt::Formatter<'_>) -> std::fmt::Result { write!(f, "RZ") } }
    impl MapKey for $res { type Value = u8; }
    impl Task for $name {
      type Output = (u8, u8, Option<u8>);
      fn execute<C: Context>(&self, ctx: &mut C) -> Self::Output {
        let v = ctx.read(&$res, MapEqualsChecker).ok().and_then(|r| r.copied());
        ($tag, 0, v)
      }
    }
  };
}
zfam!(Z1, RZ1, 2u8);
zfam!(Z2, RZ2, 3u8);

/// A task that resolves four same-hash resources of different types back to back (two newtypes, two unit structs).
#[derive(Clone, Copy, PartialEq, Eq, Hash)]
pub struct Both(pub u8);
impl std::fmt::Debug for Both { fn fmt(&self, f: &mut std::fmt::Formatter<'_>) -> std::fmt::Result { write!(f, "K({})", self.0) } }
impl Task for Both {
  type Output = (u8, u8, Option<u8>);
  fn execute<C: Context>(&self, ctx: &mut C) -> Self::Output {
    let a = ctx.read(&RA(self.0), MapEqualsChecker).ok().and_then(|r| r.copied());
    let b = ctx.read(&RB(self.0), MapEqualsChecker).ok().and_then(|r| r.copied());
    let z1 = ctx.read(&RZ1, MapEqualsChecker).ok().and_then(|r| r.copied());
    let z2 = ctx.read(&RZ2, MapEqualsChecker).ok().and_then(|r| r.copied());
    (4, self.0, Some(both_digest(a, b, z1, z2)))
  }
}
fn both_digest(a: Option<u8>, b: Option<u8>, z1: Option<u8>, z2: Option<u8>) -> u8 {
  let d = |x: Option<u8>| x.map(|v| v + 1).unwrap_or(0);
  d(a) + 4 * d(b) + 16 * d(z1) + 64 * d(z2)
}

/// A key type that is both a task and a resource: task TR(i) reads resource TR(i) (same type, same value).
#[derive(Clone, Copy, PartialEq, Eq, Hash)]
pub struct TR(pub u8);
impl std::fmt::Debug for TR { fn fmt(&self, f: &mut std::fmt::Formatter<'_>) -> std::fmt::Result { write!(f, "K({})", self.0) } }
impl MapKey for TR { type Value = u8; }
impl Task for TR {
  type Output = (u8, u8, Option<u8>);
  fn execute<C: Context>(&self, ctx: &mut C) -> Self::Output {
    let v = ctx.read(&TR(self.0), MapEqualsChecker).ok().and_then(|r| r.copied());
    (5, self.0, v)
  }
}

/// A key type whose hand-written Hash is coarser than its Eq (only the first field is hashed): unequal values of one type
/// with equal hashes. CT(i, o) is a task reading the resource CR(i, o).
#[derive(Clone, Copy, PartialEq, Eq, Debug)]
pub struct CT(pub u8, pub u8);
impl std::hash::Hash for CT { fn hash<H: std::hash::Hasher>(&self, h: &mut H) { self.0.hash(h) } }
#[derive(Clone, Copy, PartialEq, Eq, Debug)]
pub struct CR(pub u8, pub u8);
impl std::hash::Hash for CR { fn hash<H: std::hash::Hasher>(&self, h: &mut H) { self.0.hash(h) } }
impl MapKey for CR { type Value = u8; }
impl Task for CT {
  type Output = (u8, u8, Option<u8>);
  fn execute<C: Context>(&self, ctx: &mut C) -> Self::Output {
    let v = ctx.read(&CR(self.0, self.1), MapEqualsChecker).ok().and_then(|r| r.copied());
    (6, self.0 + 3 * self.1, v)
  }
}

pub const NFAM: u8 = 12;

/// 0 = A, 1 = B, 2 = Box<A>, 3 = Rc<A>, 4 = Arc<A>, 5 = Box<B>, 6 = Z1, 7 = Z2, 8 = Box<Z1> (zero-sized: id is always 0),
/// 9 = Both (reads RA(id), RB(id), RZ1, RZ2 back to back), 10 = TR (a type that is task and resource at once),
/// 11 = CT (hash coarser than equality; id = low + 3 * high field, 0..6)
#[derive(Clone, Copy, Debug, Serialize, Deserialize, PartialEq, Eq, Hash, PartialOrd, Ord)]
pub struct Spec { pub fam: u8, pub id: u8 }

impl Spec {
  fn base(&self) -> u8 { match self.fam % NFAM { 1 | 5 => 1, 6 | 8 => 2, 7 => 3, 9 => 4, 10 => 5, 11 => 6, _ => 0 } }
  fn canon(&self) -> Spec { let fam = self.fam % NFAM; Spec { fam, id: if (6..=8).contains(&fam) { 0 } else if fam == 11 { self.id % 6 } else { self.id % 3 } } }
}

#[derive(Clone, PartialEq, Eq, Hash, Debug)]
struct Root(Vec<Spec>);
impl Task for Root {
  type Output = Vec<(u8, u8, Option<u8>)>;
  fn execute<C: Context>(&self, ctx: &mut C) -> Self::Output {
    self.0.iter().map(|s| match s.fam % NFAM {
      0 => ctx.require(&A(s.id), EqualsChecker),
      1 => ctx.require(&B(s.id), EqualsChecker),
      2 => ctx.require(&Box::new(A(s.id)), EqualsChecker),
      3 => ctx.require(&Rc::new(A(s.id)), EqualsChecker),
      4 => ctx.require(&Arc::new(A(s.id)), EqualsChecker),
      5 => ctx.require(&Box::new(B(s.id)), EqualsChecker),
      6 => ctx.require(&Z1, EqualsChecker),
      7 => ctx.require(&Z2, EqualsChecker),
      8 => ctx.require(&Box::new(Z1), EqualsChecker),
      9 => ctx.require(&Both(s.id), EqualsChecker),
      10 => ctx.require(&TR(s.id), EqualsChecker),
      _ => ctx.require(&CT(s.id % 3, s.id / 3 % 2), EqualsChecker),
    }).collect()
  }
}

thread_local! { static EXECS: RefCell<Vec<Spec>> = RefCell::new(vec![]); }

fn spec_of(k: &dyn KeyObj) -> Option<Spec> {
  let a = k.as_any();
  if let Some(x) = a.downcast_ref::<A>() { return Some(Spec { fam: 0, id: x.0 }); }
  if let Some(x) = a.downcast_ref::<B>() { return Some(Spec { fam: 1, id: x.0 }); }
  if let Some(x) = a.downcast_ref::<Box<A>>() { return Some(Spec { fam: 2, id: x.0 }); }
  if let Some(x) = a.downcast_ref::<Rc<A>>() { return Some(Spec { fam: 3, id: x.0 }); }
  if let Some(x) = a.downcast_ref::<Arc<A>>() { return Some(Spec { fam: 4, id: x.0 }); }
  if let Some(x) = a.downcast_ref::<Box<B>>() { return Some(Spec { fam: 5, id: x.0 }); }
  if a.downcast_ref::<Z1>().is_some() { return Some(Spec { fam: 6, id: 0 }); }
  if a.downcast_ref::<Z2>().is_some() { return Some(Spec { fam: 7, id: 0 }); }
  if a.downcast_ref::<Box<Z1>>().is_some() { return Some(Spec { fam: 8, id: 0 }); }
  if let Some(x) = a.downcast_ref::<Both>() { return Some(Spec { fam: 9, id: x.0 }); }
  if let Some(x) = a.downcast_ref::<TR>() { return Some(Spec { fam: 10, id: x.0 }); }
  if let Some(x) = a.downcast_ref::<CT>() { return Some(Spec { fam: 11, id: x.0 + 3 * x.1 }); }
  None
}

struct ExecTracker;
impl Tracker for ExecTracker {
  fn execute_start(&mut self, task: &dyn KeyObj) { if let Some(s) = spec_of(task) { EXECS.with(|e| e.borrow_mut().push(s)); } }
}

#[derive(Clone, Debug, Serialize, Deserialize, PartialEq, Eq, Hash)]
pub enum IStep { ChangeC { id: u8, val: Option<u8> }, Session, BottomUp, /// Bottom-up build that is told about the same-bytes twin of every changed resource (another type) instead of the resource itself.
  BottomUpTwin, ChangeT { id: u8, val: Option<u8> }, ChangeA { id: u8, val: Option<u8> }, ChangeB { id: u8, val: Option<u8> }, ChangeZ { which: u8, val: Option<u8> } }

#[derive(Clone, Debug, Serialize, Deserialize, PartialEq, Eq, Hash)]
pub struct ICase { pub specs: Vec<Spec>, pub steps: Vec<IStep> }

fn key_obj(s: &Spec) -> Box<dyn KeyObj> {
  match s.fam % NFAM { 0 => Box::new(A(s.id)), 1 => Box::new(B(s.id)), 2 => Box::new(Box::new(A(s.id))), 3 => Box::new(Rc::new(A(s.id))), 4 => Box::new(Arc::new(A(s.id))), 5 => Box::new(Box::new(B(s.id))), 6 => Box::new(Z1), 7 => Box::new(Z2), 8 => Box::new(Box::new(Z1)), 9 => Box::new(Both(s.id)), 10 => Box::new(TR(s.id)), _ => Box::new(CT(s.id % 3, s.id / 3 % 2)) }
}
fn hash_of(k: &dyn KeyObj) -> u64 { let mut h = DefaultHasher::new(); k.hash(&mut h); h.finish() }

pub fn check(case: &ICase, stats: &mut Stats) -> CheckResult {
  let specs: Vec<Spec> = case.specs.iter().map(|s| s.canon()).collect();
  // --- Part 1: dyn KeyObj equality and hashing over all pairs of the case's keys (separately constructed).
  for a in &specs {
    for b in &specs {
      let (ka, kb) = (key_obj(a), key_obj(b));
      let same = a == b;
      if (ka.as_ref() == kb.as_ref()) != same || (ka == kb) != same {
        return Err(Failure::new(format!("dyn KeyObj equality of {:?} and {:?} is {}, but (type, value) identity says {}", a, b, !same, same)));
      }
      if same && hash_of(ka.as_ref()) != hash_of(kb.as_ref()) { return Err(Failure::new(format!("equal keys {:?} hash differently", a))); }
      let c = ka.clone();
      if c.as_ref() != ka.as_ref() { return Err(Failure::new(format!("clone of key {:?} is not equal to it", a))); }
    }
  }
  // Resource keys of the four resource types, as trait objects.
  {
    let rkeys: Vec<(u8, u8, Box<dyn KeyObj>)> = vec![(0, 0, Box::new(RA(0))), (0, 1, Box::new(RA(1))), (1, 0, Box::new(RB(0))), (1, 1, Box::new(RB(1))), (2, 0, Box::new(RZ1)), (3, 0, Box::new(RZ2)), (2, 0, Box::new(RZ1)), (4, 0, Box::new(Z1)), (5, 0, Box::new(()))];
    for (ta, ia, ka) in &rkeys { for (tb, ib, kb) in &rkeys {
      let same = ta == tb && ia == ib;
      if (ka.as_ref() == kb.as_ref()) != same { return Err(Failure::new(format!("dyn KeyObj equality of resource keys {:?}#{} and {:?}#{} (type tags {} / {}) is {}, but (type, value) identity says {}", ka, ia, kb, ib, ta, tb, !same, same))); }
    } }
  }
  // --- Part 2: inside a Pie instance.
  let mut pie = Pie::with_tracker(ExecTracker);
  let mut ra: BTreeMap<u8, u8> = BTreeMap::new();
  let mut rb: BTreeMap<u8, u8> = BTreeMap::new();
  let mut rz: [Option<u8>; 2] = [None, None];
  let mut rt: BTreeMap<u8, u8> = BTreeMap::new();
  let mut rc: BTreeMap<u8, u8> = BTreeMap::new();
  // resources changed since the last build: (type 0 RA / 1 RB / 2 RZ1 / 3 RZ2, id)
  let mut changed: Vec<(u8, u8)> = vec![];
  // what each distinct key saw at its last execution
  let mut seen: BTreeMap<Spec, Option<u8>> = BTreeMap::new();
  // value of each resource a key read at its last execution
  let mut seen_res: BTreeMap<(Spec, (u8, u8)), Option<u8>> = BTreeMap::new();
  let mut root_seen: Option<Vec<(u8, u8, Option<u8>)>> = None;
  let distinct: BTreeSet<Spec> = specs.iter().cloned().collect();
  let colliding = distinct.iter().any(|x| distinct.iter().any(|y| x.id == y.id && x.fam != y.fam));
  if colliding { stats.nontrivial(fingerprint(case)); stats.sample(|| json!(format!("{:?}", case))); stats.class("keys_with_equal_bytes_and_different_types"); }
  for (i, st) in case.steps.iter().enumerate() {
    match st {
      IStep::ChangeA { id, val } => {
        if !changed.contains(&(0, *id)) { changed.push((0, *id)); }
        let m = pie.resource_state_mut::<RA>().get_global_map_mut();
        match val { Some(v) => { m.insert(RA(*id), *v); ra.insert(*id, *v); } None => { m.remove(&RA(*id)); ra.remove(id); } }
        // The other resource type must not see it.
        let other = pie.resource_state_mut::<RB>().get_global_map_mut().get(&RB(*id)).copied();
        if other != rb.get(id).copied() { return Err(Failure::new(format!("step {}: changing resource RA({}) changed what RB({}) holds: {:?}", i, id, id, other))); }
      }
      IStep::ChangeC { id, val } => {
        let id = *id % 6;
        if !changed.contains(&(5, id)) { changed.push((5, id)); }
        let m = pie.resource_state_mut::<CR>().get_global_map_mut();
        match val { Some(v) => { m.insert(CR(id % 3, id / 3), *v); rc.insert(id, *v); } None => { m.remove(&CR(id % 3, id / 3)); rc.remove(&id); } }
      }
      IStep::ChangeT { id, val } => {
        if !changed.contains(&(4, *id)) { changed.push((4, *id)); }
        let m = pie.resource_state_mut::<TR>().get_global_map_mut();
        match val { Some(v) => { m.insert(TR(*id), *v); rt.insert(*id, *v); } None => { m.remove(&TR(*id)); rt.remove(id); } }
      }
      IStep::ChangeB { id, val } => {
        if !changed.contains(&(1, *id)) { changed.push((1, *id)); }
        let m = pie.resource_state_mut::<RB>().get_global_map_mut();
        match val { Some(v) => { m.insert(RB(*id), *v); rb.insert(*id, *v); } None => { m.remove(&RB(*id)); rb.remove(id); } }
        let other = pie.resource_state_mut::<RA>().get_global_map_mut().get(&RA(*id)).copied();
        if other != ra.get(id).copied() { return Err(Failure::new(format!("step {}: changing resource RB({}) changed what RA({}) holds: {:?}", i, id, id, other))); }
      }
      IStep::ChangeZ { which, val } => {
        let w = (*which % 2) as usize;
        if !changed.contains(&(2 + w as u8, 0)) { changed.push((2 + w as u8, 0)); }
        if w == 0 { let m = pie.resource_state_mut::<RZ1>().get_global_map_mut(); match val { Some(v) => { m.insert(RZ1, *v); } None => { m.remove(&RZ1); } } }
        else { let m = pie.resource_state_mut::<RZ2>().get_global_map_mut(); match val { Some(v) => { m.insert(RZ2, *v); } None => { m.remove(&RZ2); } } }
        rz[w] = *val;
        let o1 = pie.resource_state_mut::<RZ1>().get_global_map_mut().get(&RZ1).copied();
        let o2 = pie.resource_state_mut::<RZ2>().get_global_map_mut().get(&RZ2).copied();
        if [o1, o2] != rz { return Err(Failure::new(format!("step {}: after changing the zero-sized resource #{} the two zero-sized resources hold {:?}, expected {:?}", i, w, [o1, o2], rz))); }
      }
      IStep::Session | IStep::BottomUp | IStep::BottomUpTwin => {
        EXECS.with(|e| e.borrow_mut().clear());
        let out = {
          let mut session = pie.new_session();
          if !matches!(st, IStep::Session) {
            stats.class("bottom_up_step");
            // What is reported: the changed resources themselves, or their twins of another type with the same bytes.
            let twin = matches!(st, IStep::BottomUpTwin);
            let reported: Vec<(u8, u8)> = changed.iter().map(|(ty, id)| if twin { (match ty { 0 => 1, 1 => 0, 2 => 3, 3 => 2, 5 => 5, _ => 0 }, if *ty == 5 { (*id + 3) % 6 } else { *id }) } else { (*ty, *id) }).collect();
            if twin && !reported.is_empty() { stats.class("bottom_up_step_reporting_same_bytes_twins"); }
            {
              let mut bu = session.create_bottom_up_build();
              for (ty, id) in &reported {
                match ty { 0 => bu.schedule_tasks_affected_by(&RA(*id)), 1 => bu.schedule_tasks_affected_by(&RB(*id)), 2 => bu.schedule_tasks_affected_by(&RZ1), 3 => bu.schedule_tasks_affected_by(&RZ2), 5 => bu.schedule_tasks_affected_by(&CR(*id % 3, *id / 3 % 2)), _ => bu.schedule_tasks_affected_by(&TR(*id)) }
              }
              bu.update_affected_tasks();
            }
            // The bottom-up build itself executes exactly the known tasks that read a *reported* resource whose value
            // differs from what they saw - never a task whose resource merely has the same bytes as a reported one.
            let reads = |s: &Spec| -> Vec<(u8, u8)> { match s.base() { 0 => vec![(0, s.id)], 1 => vec![(1, s.id)], 2 => vec![(2, 0)], 3 => vec![(3, 0)], 5 => vec![(4, s.id)], 6 => vec![(5, s.id)], _ => vec![(0, s.id), (1, s.id), (2, 0), (3, 0)] } };
            let now = |r: &(u8, u8)| -> Option<u8> { match r.0 { 0 => ra.get(&r.1).copied(), 1 => rb.get(&r.1).copied(), 2 => rz[0], 3 => rz[1], 5 => rc.get(&r.1).copied(), _ => rt.get(&r.1).copied() } };
            let mut want_bu: Vec<Spec> = distinct.iter().cloned().filter(|s| seen.contains_key(s) && reads(s).iter().any(|r| reported.contains(r) && seen_res.get(&(*s, *r)).copied().flatten() != now(r))).collect();
            want_bu.sort();
            let mut got_bu = EXECS.with(|e| e.borrow().clone());
            got_bu.sort();
            if got_bu != want_bu {
              return Err(Failure::new(format!("step {}: the bottom-up build told about {:?} executed {:?}, but the known tasks reading a reported resource that changed are {:?}", i, reported, got_bu, want_bu)));
            }
          }
          // After an (intentionally) incomplete twin report the root may have been rebuilt from outputs the bottom-up
          // build rightly considered unaffected; the top-down require therefore runs in a new session, which validates
          // everything.
          if matches!(st, IStep::BottomUpTwin) { drop(session); pie.new_session().require(&Root(specs.clone())) } else { session.require(&Root(specs.clone())) }
        };
        changed.clear();
        let mut execs = EXECS.with(|e| e.borrow().clone());
        execs.sort();
        // Expected: each distinct key executes iff never executed or its own resource changed since.
        let cur = |s: &Spec| -> Option<u8> { match s.base() { 0 => ra.get(&s.id).copied(), 1 => rb.get(&s.id).copied(), 2 => rz[0], 3 => rz[1], 5 => rt.get(&s.id).copied(), 6 => rc.get(&s.id).copied(), _ => Some(both_digest(ra.get(&s.id).copied(), rb.get(&s.id).copied(), rz[0], rz[1])) } };
        let mut want_exec: Vec<Spec> = vec![];
        // The root validates its requires in order and stops at the first inconsistent one; keys after that are
        // re-required by the re-executing root. Either way every distinct key is made consistent exactly once.
        let first_time = root_seen.is_none();
        let mut any_output_change = false;
        for s in &distinct {
          let need = match seen.get(s) { None => true, Some(v) => *v != cur(s) };
          if need { any_output_change = true; }
        }
        if first_time || any_output_change {
          for s in &distinct {
            let need = match seen.get(s) { None => true, Some(v) => *v != cur(s) };
            if need {
              want_exec.push(*s); seen.insert(*s, cur(s));
              let rs: Vec<(u8, u8)> = match s.base() { 0 => vec![(0, s.id)], 1 => vec![(1, s.id)], 2 => vec![(2, 0)], 3 => vec![(3, 0)], 5 => vec![(4, s.id)], 6 => vec![(5, s.id)], _ => vec![(0, s.id), (1, s.id), (2, 0), (3, 0)] };
              for r in rs { let v = match r.0 { 0 => ra.get(&r.1).copied(), 1 => rb.get(&r.1).copied(), 2 => rz[0], 3 => rz[1], 5 => rc.get(&r.1).copied(), _ => rt.get(&r.1).copied() }; seen_res.insert((*s, r), v); }
            }
          }
        }
        want_exec.sort();
        if execs != want_exec {
          return Err(Failure::new(format!("step {}: executed task keys {:?}, but by (type, value) identity exactly {:?} have to execute (each once)", i, execs, want_exec)));
        }
        let want_out: Vec<(u8, u8, Option<u8>)> = specs.iter().map(|s| (s.base(), s.id, cur(s))).collect();
        if specs.iter().any(|s| s.fam == 9) { stats.class("session_with_task_reading_same_hash_resources_back_to_back"); }
        if out != want_out {
          return Err(Failure::new(format!("step {}: root returned {:?}, expected {:?} (a key received another key's cached output?)", i, out, want_out)));
        }
        root_seen = Some(out);
      }
    }
  }
  Ok(())
}

fn spec() -> impl Strategy<Value=Spec> { (0u8..NFAM, 0u8..6).prop_map(|(fam, id)| Spec { fam, id }.canon()) }
fn istep() -> impl Strategy<Value=IStep> {
  prop_oneof![
    3 => Just(IStep::Session),
    2 => Just(IStep::BottomUp),
    1 => Just(IStep::BottomUpTwin),
    2 => (0u8..3, proptest::option::of(0u8..3)).prop_map(|(id, val)| IStep::ChangeA { id, val }),
    2 => (0u8..3, proptest::option::of(0u8..3)).prop_map(|(id, val)| IStep::ChangeB { id, val }),
    2 => (0u8..2, proptest::option::of(0u8..3)).prop_map(|(which, val)| IStep::ChangeZ { which, val }),
    2 => (0u8..3, proptest::option::of(0u8..3)).prop_map(|(id, val)| IStep::ChangeT { id, val }),
    2 => (0u8..6, proptest::option::of(0u8..3)).prop_map(|(id, val)| IStep::ChangeC { id, val }),
  ]
}
pub fn strategy() -> impl Strategy<Value=ICase> {
  (proptest::collection::vec(spec(), 1..=8), proptest::collection::vec(istep(), 1..=10)).prop_map(|(specs, mut steps)| { steps.push(IStep::Session); ICase { specs, steps } })
}

pub fn replay(path: &Path) -> Result<CheckResult, String> {
  let (_, _, c): (_, _, ICase) = driver::load_replay(path)?;
  Ok(driver::guarded(|| check(&c, &mut Stats::dummy())))
}

pub fn run(tier: Tier, seed: u64) -> i32 {
  let rule = "proptest-generated key lists drawn from nine task types with identical representation, hash and Debug text (newtypes A(u8), B(u8), Box<A>, Rc<A>, Arc<A>, Box<B>, and the zero-sized unit structs Z1, Z2, Box<Z1>, whose boxes even share an address) and four resource types RA(u8)/RB(u8)/RZ1/RZ2 with colliding ids, plus a task that reads RA(i), RB(i), RZ1, RZ2 back to back a key type TR(i) that is a task and the resource it reads at once, and task/resource types CT/CR whose hand-written Hash is coarser than their Eq (unequal values of one type with equal hashes), x histories of top-down sessions, bottom-up builds (all changed resources reported) and changes to RA(i)/RB(i)/RZ1/RZ2; oracle: dyn KeyObj equality holds iff same concrete type and equal value, equal keys hash equally (all pairs of separately constructed keys); inside a Pie instance a root task requires the listed keys: every distinct (type, value) executes exactly once when new or when its own resource changed, never because a same-bytes key of another type changed, and every key gets its own output; changing RA(i) never changes RB(i); non-trivial = case with two keys of equal bytes and different types; distinct by case hash";
  let mut report = Report::new("C15", tier, seed, "exploration", rule);
  let known = Known::load("C15");
  super::prologue(&mut report, &known);
  let (shards, cases) = match tier { Tier::Quick => (16, 5000), Tier::Thorough => (16, 60000) };
  let cfg = SearchCfg { prop: "C15", label: "keys", seed, shards, cases_per_shard: cases, max_shrink_iters: 2000 };
  let (stats, found) = driver::search(&cfg, &known, strategy, |c, s| check(c, s), |c| format!("{:?}", c));
  report.absorb("keys", stats, found);
  report.assumptions = vec!["wrapper tasks (Box/Rc/Arc) run the wrapped task's body but are distinct tasks (pie/src/task.rs)".into()];
  report.finish()
}
