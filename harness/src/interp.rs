//! Interpreter: `impl pie::Task for Tk`, the instrumented resource `VRes`, instrumented checkers, the recording
//! tracker `Rec`, and the unified chronological log all of them write to (thread-local, reset per case).

use std::cell::RefCell;
use std::collections::BTreeMap;
use std::collections::BTreeSet;
use std::convert::Infallible;
use std::error::Error;
use std::fmt::{self, Debug, Display};
use std::rc::Rc;

use pie::task::{AlwaysConsistent, EqualsChecker, ErrEqualsChecker, OkEqualsChecker, ResultChecker};
use pie::tracker::Tracker;
use pie::trait_object::{KeyObj, ValueObj};
use pie::{Context, OutputChecker, Resource, ResourceChecker, ResourceState, Task};

use crate::lang::*;

// ---------------------------------------------------------------------------------------------------------------------
// Log

/// Outcome of a dependency check as seen by the tracker / returned by an instrumented checker.
#[derive(Clone, Copy, Debug, PartialEq, Eq, Hash)]
pub enum Verdict { Consistent, Inconsistent, Error }

#[derive(Clone, Debug, PartialEq, Eq, Hash)]
pub enum StampRoute { Direct, Reader(u32), Writer(u32) }

/// One entry of the unified log. `T*` entries are written by the task interpreter (ground truth of what tasks did),
/// `R*` by the instrumented resource, `C*` by instrumented checkers, `E*` by the tracker `Rec` (what pie reported).
#[derive(Clone, Debug, PartialEq, Eq, Hash)]
pub enum L {
  // task side
  TEnter(TaskId),
  TExit(TaskId, Out),
  TReadCall { t: TaskId, r: ResId, chk: RChk, faulty: bool },
  TReadRet { t: TaskId, r: ResId, h: u32, seen: Option<Val> },
  TReadErr { t: TaskId, r: ResId, msg: String },
  TRequireCall { t: TaskId, dst: TaskId, chk: OChk },
  TRequireRet { t: TaskId, dst: TaskId, out: Out },
  TWriteCall { t: TaskId, r: ResId, chk: RChk, faulty: bool, via: Via },
  /// The task's write function ran (or, for `WrittenTo`, the task used the writer) and set `val`.
  TWriteFn { t: TaskId, r: ResId, h: u32, val: Option<Val> },
  TWriteRet { t: TaskId, r: ResId },
  TWriteErr { t: TaskId, r: ResId, msg: String },
  TRecursed(TaskId),
  /// Written by the engine when a build was cut by a panic.
  Aborted,
  /// External change made while a session is open (logged when it is made; applied to the resource state the next time
  /// anything looks at it, which is observationally the same).
  ExtChange { r: ResId, val: Option<Val> },
  // resource side
  RRead { r: ResId, h: u32, val: Option<Val> },
  RWrite { r: ResId, h: u32 },
  RConsumed { h: u32 },
  RSet { h: u32, r: ResId, val: Option<Val> },
  // checker side
  CStamp { chk: RChk, faulty: bool, r: ResId, route: StampRoute, stamp: u8 },
  CCheck { chk: RChk, faulty: bool, r: ResId, stamp: u8, verdict: Verdict },
  COStamp { chk: OChk, out: Out, stamp: u8 },
  COCheck { chk: OChk, out: Out, stamp: u8, inconsistent: bool },
  // tracker side (stream 0)
  E(Ev),
}

/// Tracker events with down-cast subjects.
#[derive(Clone, Debug, PartialEq, Eq, Hash)]
pub enum Ev {
  BuildStart,
  BuildEnd,
  RequireStart { t: TaskId, chk: String },
  RequireEnd { t: TaskId, chk: String, stamp: String, out: Out },
  ReadStart { r: ResId, chk: String },
  ReadEnd { r: ResId, chk: String, stamp: String },
  WriteStart { r: ResId, chk: String },
  WriteEnd { r: ResId, chk: String, stamp: String },
  CheckTaskStart { t: TaskId, chk: String, stamp: String },
  CheckTaskEnd { t: TaskId, chk: String, stamp: String, inconsistent: bool },
  CheckResStart { r: ResId, chk: String, stamp: String },
  CheckResEnd { r: ResId, chk: String, stamp: String, verdict: Verdict },
  ExecStart { t: TaskId },
  ExecEnd { t: TaskId, out: Out },
  SchedByTaskStart { t: TaskId },
  CheckReqStart { t: TaskId, chk: String, stamp: String },
  CheckReqEnd { t: TaskId, chk: String, stamp: String, inconsistent: bool },
  SchedByTaskEnd { t: TaskId },
  SchedByResStart { r: ResId },
  CheckReadStart { t: TaskId, chk: String, stamp: String },
  CheckReadEnd { t: TaskId, chk: String, stamp: String, verdict: Verdict },
  SchedByResEnd { r: ResId },
  Schedule { t: TaskId },
}

pub const INJECTED_PANIC: &str = "PV-INJECTED-PANIC";
pub const TASK_PANIC: &str = "PV-TASK-PANIC";

pub struct Cx {
  pub prog: Rc<Program>,
  pub log: Vec<L>,
  /// Secondary tracker streams (C17 composite check): stream id -> events.
  pub streams: BTreeMap<u8, Vec<Ev>>,
  pub next_handle: u32,
  pub stack: Vec<TaskId>,
  pub faults: BTreeSet<(ResId, RChk)>,
  /// Remaining task-side operation points until an injected panic (0 = disarmed).
  pub countdown: u32,
  /// Number of task-side operation points passed since the counter was last reset.
  pub ops: u32,
  /// External changes made while a session holds the resource state; drained on the next access.
  pub pending_ext: Vec<(ResId, Option<Val>)>,
}

thread_local! {
  static CX: RefCell<Option<Cx>> = RefCell::new(None);
}

pub fn install(prog: Rc<Program>) {
  CX.with(|c| *c.borrow_mut() = Some(Cx {
    prog, log: Vec::new(), streams: BTreeMap::new(), next_handle: 0, stack: Vec::new(), faults: BTreeSet::new(), countdown: 0, ops: 0, pending_ext: Vec::new(),
  }));
}

pub fn uninstall() -> Option<Cx> { CX.with(|c| c.borrow_mut().take()) }

pub fn with_cx<R>(f: impl FnOnce(&mut Cx) -> R) -> R {
  CX.with(|c| f(c.borrow_mut().as_mut().expect("interpreter context not installed")))
}

#[inline]
pub fn log(l: L) { with_cx(|c| c.log.push(l)); }
pub fn log_len() -> usize { with_cx(|c| c.log.len()) }
fn new_handle() -> u32 { with_cx(|c| { c.next_handle += 1; c.next_handle }) }

/// A task-side operation point; panics when the armed countdown reaches zero.
fn tick() {
  let fire = with_cx(|c| {
    c.ops += 1;
    if c.countdown > 0 {
      c.countdown -= 1;
      c.countdown == 0
    } else { false }
  });
  if fire { panic!("{}", INJECTED_PANIC); }
}

// ---------------------------------------------------------------------------------------------------------------------
// Resource

#[derive(Clone, Copy, PartialEq, Eq, Hash, PartialOrd, Ord)]
pub struct VRes(pub ResId);

impl Debug for VRes {
  fn fmt(&self, f: &mut fmt::Formatter<'_>) -> fmt::Result { write!(f, "r{}", self.0) }
}

#[derive(Default, Clone, Debug, PartialEq, Eq)]
pub struct VState {
  pub map: BTreeMap<ResId, Val>,
}

/// The instrumented state with pending external changes applied.
pub fn vstate<RS: ResourceState<VRes>>(state: &mut RS) -> &mut VState {
  let st = state.get_or_set_default_mut::<VState>();
  apply_pending(st);
  st
}
pub fn apply_pending(st: &mut VState) {
  let pending = with_cx(|c| std::mem::take(&mut c.pending_ext));
  for (r, val) in pending { match val { Some(v) => { st.map.insert(r, v % 4); } None => { st.map.remove(&r); } } }
}

pub struct VReader {
  pub h: u32,
  val: Option<Val>,
}

impl VReader {
  /// The task consumes the reader.
  pub fn consume(&mut self) -> Option<Val> {
    log(L::RConsumed { h: self.h });
    self.val
  }
  /// Used by checkers (does not count as consumption).
  pub fn peek(&self) -> Option<Val> { self.val }
}

pub struct VWriter<'r> {
  pub h: u32,
  res: ResId,
  state: &'r mut VState,
}

impl VWriter<'_> {
  pub fn set(&mut self, val: Option<Val>) {
    log(L::RSet { h: self.h, r: self.res, val });
    match val {
      Some(v) => { self.state.map.insert(self.res, v); }
      None => { self.state.map.remove(&self.res); }
    }
  }
  pub fn get(&self) -> Option<Val> { self.state.map.get(&self.res).copied() }
}

impl Resource for VRes {
  type Reader<'rs> = VReader;
  type Writer<'r> = VWriter<'r>;
  type Error = Infallible;

  fn read<'rs, RS: ResourceState<Self>>(&self, state: &'rs mut RS) -> Result<VReader, Infallible> {
    let st = vstate(state);
    let val = st.map.get(&self.0).copied();
    let h = new_handle();
    log(L::RRead { r: self.0, h, val });
    Ok(VReader { h, val })
  }

  fn write<'r, RS: ResourceState<Self>>(&'r self, state: &'r mut RS) -> Result<VWriter<'r>, Infallible> {
    let st = vstate(state);
    let h = new_handle();
    log(L::RWrite { r: self.0, h });
    Ok(VWriter { h, res: self.0, state: st })
  }
}

// ---------------------------------------------------------------------------------------------------------------------
// Resource checkers

#[derive(Clone, Copy, PartialEq, Eq, Hash)]
pub struct RC {
  pub kind: RChk,
  pub faulty: bool,
}

impl Debug for RC {
  fn fmt(&self, f: &mut fmt::Formatter<'_>) -> fmt::Result { write!(f, "{:?}{}", self.kind, if self.faulty { "!" } else { "" }) }
}

#[derive(Clone, Copy, PartialEq, Eq, Hash)]
pub struct RStamp(pub u8);

impl Debug for RStamp {
  fn fmt(&self, f: &mut fmt::Formatter<'_>) -> fmt::Result { write!(f, "s{}", self.0) }
}

#[derive(Clone, Debug, PartialEq, Eq)]
pub struct CkErr(pub String);

impl Display for CkErr {
  fn fmt(&self, f: &mut fmt::Formatter<'_>) -> fmt::Result { write!(f, "{}", self.0) }
}

impl Error for CkErr {}

pub fn fault_message(r: ResId, kind: RChk) -> String { format!("injected checker fault r{} {:?}", r, kind) }

impl ResourceChecker<VRes> for RC {
  type Stamp = RStamp;
  type Error = CkErr;

  fn stamp<RS: ResourceState<VRes>>(&self, resource: &VRes, state: &mut RS) -> Result<RStamp, CkErr> {
    let val = vstate(state).map.get(&resource.0).copied();
    let stamp = stamp_r(self.kind, val);
    log(L::CStamp { chk: self.kind, faulty: self.faulty, r: resource.0, route: StampRoute::Direct, stamp });
    Ok(RStamp(stamp))
  }

  fn stamp_reader(&self, resource: &VRes, reader: &mut VReader) -> Result<RStamp, CkErr> {
    let stamp = stamp_r(self.kind, reader.peek());
    log(L::CStamp { chk: self.kind, faulty: self.faulty, r: resource.0, route: StampRoute::Reader(reader.h), stamp });
    Ok(RStamp(stamp))
  }

  fn stamp_writer(&self, resource: &VRes, writer: VWriter<'_>) -> Result<RStamp, CkErr> {
    let stamp = stamp_r(self.kind, writer.get());
    log(L::CStamp { chk: self.kind, faulty: self.faulty, r: resource.0, route: StampRoute::Writer(writer.h), stamp });
    Ok(RStamp(stamp))
  }

  fn check<RS: ResourceState<VRes>>(&self, resource: &VRes, state: &mut RS, stamp: &RStamp) -> Result<Option<impl Debug>, CkErr> {
    if self.faulty && with_cx(|c| c.faults.contains(&(resource.0, self.kind))) {
      log(L::CCheck { chk: self.kind, faulty: self.faulty, r: resource.0, stamp: stamp.0, verdict: Verdict::Error });
      return Err(CkErr(fault_message(resource.0, self.kind)));
    }
    let val = vstate(state).map.get(&resource.0).copied();
    let now = stamp_r(self.kind, val);
    let ok = rel_r(self.kind, stamp.0, now);
    let verdict = if ok { Verdict::Consistent } else { Verdict::Inconsistent };
    log(L::CCheck { chk: self.kind, faulty: self.faulty, r: resource.0, stamp: stamp.0, verdict });
    Ok(if ok { None } else { Some(RStamp(now)) })
  }

  fn wrap_error(&self, error: Infallible) -> CkErr { match error {} }
}

// ---------------------------------------------------------------------------------------------------------------------
// Instrumented output checker (kinds Parity and IEquals)

#[derive(Clone, Copy, PartialEq, Eq, Hash)]
pub struct OC(pub OChk);

impl Debug for OC {
  fn fmt(&self, f: &mut fmt::Formatter<'_>) -> fmt::Result { write!(f, "{:?}", self.0) }
}

#[derive(Clone, Copy, PartialEq, Eq, Hash)]
pub struct OStamp(pub u8);

impl Debug for OStamp {
  fn fmt(&self, f: &mut fmt::Formatter<'_>) -> fmt::Result { write!(f, "o{}", self.0) }
}

impl OutputChecker<Out> for OC {
  type Stamp = OStamp;
  fn stamp(&self, output: &Out) -> OStamp {
    let stamp = stamp_o(self.0, output);
    log(L::COStamp { chk: self.0, out: *output, stamp });
    OStamp(stamp)
  }
  fn check(&self, output: &Out, stamp: &OStamp) -> Option<impl Debug> {
    let now = stamp_o(self.0, output);
    let ok = rel_o(self.0, stamp.0, now);
    log(L::COCheck { chk: self.0, out: *output, stamp: stamp.0, inconsistent: !ok });
    if !ok { Some(OStamp(now)) } else { None }
  }
}

// ---------------------------------------------------------------------------------------------------------------------
// Task

#[derive(Clone, Copy, PartialEq, Eq, Hash, PartialOrd, Ord)]
pub struct Tk(pub TaskId);

impl Debug for Tk {
  fn fmt(&self, f: &mut fmt::Formatter<'_>) -> fmt::Result { write!(f, "T{}", self.0) }
}

pub fn wval(v: u8) -> Option<Val> { if v >= 6 { None } else { Some(v % 4) } }

impl Task for Tk {
  type Output = Out;

  fn execute<C: Context>(&self, ctx: &mut C) -> Out {
    let me = self.0;
    let (prog, recursed) = with_cx(|c| {
      let rec = c.stack.contains(&me) || c.stack.len() > c.prog.tasks.len() + 1;
      c.stack.push(me);
      (c.prog.clone(), rec)
    });
    log(L::TEnter(me));
    if recursed {
      // A task entered while it is still executing: pie failed to detect a cycle. Do not recurse further.
      log(L::TRecursed(me));
      with_cx(|c| { c.stack.pop(); });
      log(L::TExit(me, Err(3)));
      return Err(3);
    }
    tick();
    let mut env = [0u8; NVARS];
    let out = match prog.tasks.get(me as usize) {
      Some(script) => {
        run_block(me, &script.body, &mut env, ctx);
        num_out(script.out.as_ref().map(|e| e.eval(&env)).unwrap_or(0))
      }
      None => Ok(0),
    };
    tick();
    with_cx(|c| { c.stack.pop(); });
    log(L::TExit(me, out));
    out
  }
}

/// Pops the task stack after an unwinding (called by the engine when it catches a panic).
pub fn clear_stack() { with_cx(|c| c.stack.clear()); }

fn run_block<C: Context>(me: TaskId, block: &[Stmt], env: &mut [u8; NVARS], ctx: &mut C) {
  for s in block {
    match s {
      Stmt::Read { res, chk, faulty, var } => {
        let r = res.resolve(env);
        log(L::TReadCall { t: me, r, chk: *chk, faulty: *faulty });
        tick();
        match ctx.read(&VRes(r), RC { kind: *chk, faulty: *faulty }) {
          Ok(mut reader) => {
            let seen = reader.consume();
            log(L::TReadRet { t: me, r, h: reader.h, seen });
            env[(*var as usize) % NVARS] = observe_r(*chk, seen);
          }
          Err(e) => {
            log(L::TReadErr { t: me, r, msg: e.to_string() });
            env[(*var as usize) % NVARS] = 7;
          }
        }
        tick();
      }
      Stmt::Require { task, chk, var } => {
        let dst = task.resolve(env);
        log(L::TRequireCall { t: me, dst, chk: *chk });
        tick();
        let out = require_with(ctx, dst, *chk);
        log(L::TRequireRet { t: me, dst, out });
        env[(*var as usize) % NVARS] = observe_o(*chk, &out);
        tick();
      }
      Stmt::Write { res, chk, faulty, val, via } => {
        let r = res.resolve(env);
        let v = wval(val.eval(env));
        log(L::TWriteCall { t: me, r, chk: *chk, faulty: *faulty, via: *via });
        tick();
        let checker = RC { kind: *chk, faulty: *faulty };
        let result: Result<(), String> = match via {
          Via::Ctx => ctx.write(&VRes(r), checker, |w: &mut VWriter<'_>| {
            tick();
            w.set(v);
            log(L::TWriteFn { t: me, r, h: w.h, val: v });
            Ok(())
          }).map_err(|e| e.to_string()),
          Via::WrittenTo => {
            let resource = VRes(r);
            let created = {
              match ctx.create_writer(&resource) {
                Ok(mut w) => {
                  w.set(v);
                  log(L::TWriteFn { t: me, r, h: w.h, val: v });
                  Ok(())
                }
                Err(e) => match e {},
              }
            };
            match created {
              Ok(()) => { tick(); ctx.written_to(&VRes(r), checker).map_err(|e| e.to_string()) }
              Err(e) => Err(e),
            }
          }
        };
        match result {
          Ok(()) => log(L::TWriteRet { t: me, r }),
          Err(msg) => log(L::TWriteErr { t: me, r, msg }),
        }
        tick();
      }
      Stmt::If { cond, then, els } => {
        if cond.eval(env) != 0 { run_block(me, then, env, ctx); } else { run_block(me, els, env, ctx); }
      }
      Stmt::PanicIf { cond } => {
        if cond.eval(env) != 0 { panic!("{}: task T{} fails", TASK_PANIC, me); }
      }
    }
  }
}

pub fn require_with<C: Context>(ctx: &mut C, dst: TaskId, chk: OChk) -> Out {
  match chk {
    OChk::Equals => ctx.require(&Tk(dst), EqualsChecker),
    OChk::OkEquals => ctx.require(&Tk(dst), OkEqualsChecker),
    OChk::ErrEquals => ctx.require(&Tk(dst), ErrEqualsChecker),
    OChk::ResultIs => ctx.require(&Tk(dst), ResultChecker),
    OChk::Always => ctx.require(&Tk(dst), AlwaysConsistent),
    OChk::Parity | OChk::IEquals | OChk::Near | OChk::AtLeast | OChk::Never => ctx.require(&Tk(dst), OC(chk)),
  }
}

// ---------------------------------------------------------------------------------------------------------------------
// Tracker

/// Full-fidelity tracker. Stream 0 goes to the unified log, other streams to `Cx::streams`.
#[derive(Clone, Debug, Default)]
pub struct Rec {
  pub stream: u8,
}

fn tid(k: &dyn KeyObj) -> TaskId { k.as_any().downcast_ref::<Tk>().map(|t| t.0).unwrap_or(255) }
fn rid(k: &dyn KeyObj) -> ResId { k.as_any().downcast_ref::<VRes>().map(|r| r.0).unwrap_or(255) }
fn dbg(v: &dyn ValueObj) -> String { format!("{:?}", v) }
fn out_of(v: &dyn ValueObj) -> Out { v.as_any().downcast_ref::<Out>().copied().unwrap_or(Err(255)) }
fn verdict(r: &Result<Option<&dyn Debug>, &dyn Error>) -> Verdict {
  match r { Ok(None) => Verdict::Consistent, Ok(Some(_)) => Verdict::Inconsistent, Err(_) => Verdict::Error }
}

impl Rec {
  fn push(&self, ev: Ev) {
    if self.stream == 0 { log(L::E(ev)); } else { with_cx(|c| c.streams.entry(self.stream).or_default().push(ev)); }
  }
}

impl Tracker for Rec {
  fn build_start(&mut self) { self.push(Ev::BuildStart); }
  fn build_end(&mut self) { self.push(Ev::BuildEnd); }
  fn require_start(&mut self, task: &dyn KeyObj, checker: &dyn ValueObj) { self.push(Ev::RequireStart { t: tid(task), chk: dbg(checker) }); }
  fn require_end(&mut self, task: &dyn KeyObj, checker: &dyn ValueObj, stamp: &dyn ValueObj, output: &dyn ValueObj) {
    self.push(Ev::RequireEnd { t: tid(task), chk: dbg(checker), stamp: dbg(stamp), out: out_of(output) });
  }
  fn read_start(&mut self, resource: &dyn KeyObj, checker: &dyn ValueObj) { self.push(Ev::ReadStart { r: rid(resource), chk: dbg(checker) }); }
  fn read_end(&mut self, resource: &dyn KeyObj, checker: &dyn ValueObj, stamp: &dyn ValueObj) { self.push(Ev::ReadEnd { r: rid(resource), chk: dbg(checker), stamp: dbg(stamp) }); }
  fn write_start(&mut self, resource: &dyn KeyObj, checker: &dyn ValueObj) { self.push(Ev::WriteStart { r: rid(resource), chk: dbg(checker) }); }
  fn write_end(&mut self, resource: &dyn KeyObj, checker: &dyn ValueObj, stamp: &dyn ValueObj) { self.push(Ev::WriteEnd { r: rid(resource), chk: dbg(checker), stamp: dbg(stamp) }); }
  fn check_task_start(&mut self, task: &dyn KeyObj, checker: &dyn ValueObj, stamp: &dyn ValueObj) { self.push(Ev::CheckTaskStart { t: tid(task), chk: dbg(checker), stamp: dbg(stamp) }); }
  fn check_task_end(&mut self, task: &dyn KeyObj, checker: &dyn ValueObj, stamp: &dyn ValueObj, inconsistency: Option<&dyn Debug>) {
    self.push(Ev::CheckTaskEnd { t: tid(task), chk: dbg(checker), stamp: dbg(stamp), inconsistent: inconsistency.is_some() });
  }
  fn check_resource_start(&mut self, resource: &dyn KeyObj, checker: &dyn ValueObj, stamp: &dyn ValueObj) { self.push(Ev::CheckResStart { r: rid(resource), chk: dbg(checker), stamp: dbg(stamp) }); }
  fn check_resource_end(&mut self, resource: &dyn KeyObj, checker: &dyn ValueObj, stamp: &dyn ValueObj, inconsistency: Result<Option<&dyn Debug>, &dyn Error>) {
    self.push(Ev::CheckResEnd { r: rid(resource), chk: dbg(checker), stamp: dbg(stamp), verdict: verdict(&inconsistency) });
  }
  fn execute_start(&mut self, task: &dyn KeyObj) { self.push(Ev::ExecStart { t: tid(task) }); }
  fn execute_end(&mut self, task: &dyn KeyObj, output: &dyn ValueObj) { self.push(Ev::ExecEnd { t: tid(task), out: out_of(output) }); }
  fn schedule_affected_by_task_start(&mut self, task: &dyn KeyObj) { self.push(Ev::SchedByTaskStart { t: tid(task) }); }
  fn check_task_require_task_start(&mut self, requiring_task: &dyn KeyObj, checker: &dyn ValueObj, stamp: &dyn ValueObj) { self.push(Ev::CheckReqStart { t: tid(requiring_task), chk: dbg(checker), stamp: dbg(stamp) }); }
  fn check_task_require_task_end(&mut self, requiring_task: &dyn KeyObj, checker: &dyn ValueObj, stamp: &dyn ValueObj, inconsistency: Option<&dyn Debug>) {
    self.push(Ev::CheckReqEnd { t: tid(requiring_task), chk: dbg(checker), stamp: dbg(stamp), inconsistent: inconsistency.is_some() });
  }
  fn schedule_affected_by_task_end(&mut self, task: &dyn KeyObj) { self.push(Ev::SchedByTaskEnd { t: tid(task) }); }
  fn schedule_affected_by_resource_start(&mut self, resource: &dyn KeyObj) { self.push(Ev::SchedByResStart { r: rid(resource) }); }
  fn check_task_read_resource_start(&mut self, reading_task: &dyn KeyObj, checker: &dyn ValueObj, stamp: &dyn ValueObj) { self.push(Ev::CheckReadStart { t: tid(reading_task), chk: dbg(checker), stamp: dbg(stamp) }); }
  fn check_task_read_resource_end(&mut self, reading_task: &dyn KeyObj, checker: &dyn ValueObj, stamp: &dyn ValueObj, inconsistency: Result<Option<&dyn Debug>, &dyn Error>) {
    self.push(Ev::CheckReadEnd { t: tid(reading_task), chk: dbg(checker), stamp: dbg(stamp), verdict: verdict(&inconsistency) });
  }
  fn schedule_affected_by_resource_end(&mut self, resource: &dyn KeyObj) { self.push(Ev::SchedByResEnd { r: rid(resource) }); }
  fn schedule_task(&mut self, task: &dyn KeyObj) { self.push(Ev::Schedule { t: tid(task) }); }
}

/// Debug text of the checker a statement passes (as the tracker will print it).
pub fn rchk_text(kind: RChk, faulty: bool) -> String { format!("{:?}", RC { kind, faulty }) }
pub fn ochk_text(kind: OChk) -> String {
  match kind {
    OChk::Equals => "EqualsChecker".into(),
    OChk::OkEquals => "OkEqualsChecker".into(),
    OChk::ErrEquals => "ErrEqualsChecker".into(),
    OChk::ResultIs => "ResultChecker".into(),
    OChk::Always => "AlwaysConsistent".into(),
    OChk::Parity | OChk::IEquals | OChk::Near | OChk::AtLeast | OChk::Never => format!("{:?}", OC(kind)),
  }
}
/// Debug text of the stamp of output `o` under checker `kind` (as pie's built-in checkers produce it).
pub fn ostamp_text(kind: OChk, o: &Out) -> String {
  match kind {
    OChk::Equals => format!("{:?}", o),
    OChk::OkEquals => format!("{:?}", o.as_ref().ok().cloned()),
    OChk::ErrEquals => format!("{:?}", o.as_ref().err().cloned()),
    OChk::ResultIs => format!("{:?}", o.is_err()),
    OChk::Always => "()".into(),
    OChk::Parity | OChk::IEquals | OChk::Near | OChk::AtLeast | OChk::Never => format!("{:?}", OStamp(stamp_o(kind, o))),
  }
}
pub fn rstamp_text(kind: RChk, v: Option<Val>) -> String { format!("{:?}", RStamp(stamp_r(kind, v))) }
