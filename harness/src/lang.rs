//! The task-program language: plain data (serde) describing deterministic task scripts with value-dependent
//! require/read/write structure, and histories of sessions and external changes.

use std::collections::BTreeMap;
use std::fmt::Write as _;

use serde::{Deserialize, Serialize};

pub type Val = u8; // resource values 0..4
pub type TaskId = u8;
pub type ResId = u8;
/// Task output. `Ok(0..4)` or `Err(0..4)`.
pub type Out = Result<u8, u8>;

pub const NVARS: usize = 5;
/// Variables the generators assign; variable 4 is reserved (mode switch of role-changing programs).
pub const GVARS: usize = 4;

#[derive(Serialize, Deserialize, Clone, Debug, PartialEq, Eq, Hash)]
pub enum Expr {
  Const(u8),
  Var(u8),
  Add(Box<Expr>, Box<Expr>),
  Mul(Box<Expr>, Box<Expr>),
  Eq(Box<Expr>, Box<Expr>),
  Lt(Box<Expr>, Box<Expr>),
  /// if c != 0 { a } else { b }
  Ite(Box<Expr>, Box<Expr>, Box<Expr>),
}

impl Expr {
  /// Total, deterministic; values in 0..8.
  pub fn eval(&self, env: &[u8; NVARS]) -> u8 {
    match self {
      Expr::Const(k) => *k % 8,
      Expr::Var(v) => env[(*v as usize) % NVARS] % 8,
      Expr::Add(a, b) => (a.eval(env) + b.eval(env)) % 8,
      Expr::Mul(a, b) => (a.eval(env) * b.eval(env)) % 8,
      Expr::Eq(a, b) => (a.eval(env) == b.eval(env)) as u8,
      Expr::Lt(a, b) => (a.eval(env) < b.eval(env)) as u8,
      Expr::Ite(c, a, b) => if c.eval(env) != 0 { a.eval(env) } else { b.eval(env) },
    }
  }
  pub fn pretty(&self) -> String {
    match self {
      Expr::Const(k) => format!("{}", k),
      Expr::Var(v) => format!("v{}", v),
      Expr::Add(a, b) => format!("({}+{})", a.pretty(), b.pretty()),
      Expr::Mul(a, b) => format!("({}*{})", a.pretty(), b.pretty()),
      Expr::Eq(a, b) => format!("({}=={})", a.pretty(), b.pretty()),
      Expr::Lt(a, b) => format!("({}<{})", a.pretty(), b.pretty()),
      Expr::Ite(c, a, b) => format!("({}?{}:{})", c.pretty(), a.pretty(), b.pretty()),
    }
  }
}

/// Resource checker kinds of the harness.
#[derive(Serialize, Deserialize, Clone, Copy, Debug, PartialEq, Eq, Hash, PartialOrd, Ord)]
pub enum RChk { Exact, Parity, Exists, Always, Near, AtLeast, Never }

/// Output checker kinds: the five built-in checkers of pie and two instrumented ones of the harness.
#[derive(Serialize, Deserialize, Clone, Copy, Debug, PartialEq, Eq, Hash, PartialOrd, Ord)]
pub enum OChk { Equals, OkEquals, ErrEquals, ResultIs, Always, Parity, IEquals, Near, AtLeast, Never }

pub const RCHKS: [RChk; 6] = [RChk::Exact, RChk::Parity, RChk::Exists, RChk::Always, RChk::Near, RChk::AtLeast];
/// The default lists plus the volatile kind (only for the properties that do not claim 'nothing executes').
pub const RCHKS_VOLATILE: [RChk; 7] = [RChk::Exact, RChk::Parity, RChk::Exists, RChk::Always, RChk::Near, RChk::AtLeast, RChk::Never];
pub const OCHKS_VOLATILE: [OChk; 10] = [OChk::Equals, OChk::IEquals, OChk::Always, OChk::OkEquals, OChk::ErrEquals, OChk::ResultIs, OChk::Parity, OChk::Near, OChk::AtLeast, OChk::Never];
pub const OCHKS: [OChk; 9] = [OChk::Equals, OChk::IEquals, OChk::Always, OChk::OkEquals, OChk::ErrEquals, OChk::ResultIs, OChk::Parity, OChk::Near, OChk::AtLeast];

/// What a task sees of a resource through checker `c` (P7: outputs depend only on what checkers observe).
pub fn observe_r(c: RChk, v: Option<Val>) -> u8 {
  match (c, v) {
    (RChk::Exact, None) => 0,
    (RChk::Exact, Some(v)) => 1 + v % 4,
    (RChk::Parity, None) => 0,
    (RChk::Parity, Some(v)) => 1 + v % 2,
    (RChk::Exists, None) => 0,
    (RChk::Exists, Some(_)) => 1,
    (RChk::Always, _) => 0,
    // Checkers whose consistency relation is not an equivalence (tolerance band, lower bound): the task may not let its
    // behaviour depend on the value at all, or reuse would legitimately be stale.
    (RChk::Near, _) | (RChk::AtLeast, _) => 0,
    // A volatile dependency (its checker never reports consistency): re-validated every time, observes nothing.
    (RChk::Never, _) => 0,
  }
}

/// The stamp a resource checker stores for value `v` (for the equivalence kinds: what the task observes).
pub fn stamp_r(c: RChk, v: Option<Val>) -> u8 {
  match c { RChk::Near | RChk::AtLeast => match v { None => 0, Some(v) => 1 + v % 4 }, _ => observe_r(c, v) }
}

/// Consistency relation of a resource checker between the stored stamp and the stamp of the current value.
pub fn rel_r(c: RChk, then: u8, now: u8) -> bool {
  match c {
    RChk::Near => (then == 0 && now == 0) || (then > 0 && now > 0 && then.abs_diff(now) <= 1),
    RChk::AtLeast => now >= then,
    RChk::Never => false,
    _ => then == now,
  }
}

pub fn out_num(o: &Out) -> u8 { match o { Ok(v) => *v % 4, Err(e) => 4 + *e % 4 } }
pub fn num_out(n: u8) -> Out { let n = n % 8; if n < 4 { Ok(n) } else { Err(n - 4) } }

/// What a requirer sees of an output through checker `c`.
pub fn observe_o(c: OChk, o: &Out) -> u8 {
  match c {
    OChk::Equals | OChk::IEquals => out_num(o),
    OChk::OkEquals => match o { Ok(v) => 1 + *v % 4, Err(_) => 0 },
    OChk::ErrEquals => match o { Err(e) => 1 + *e % 4, Ok(_) => 0 },
    OChk::ResultIs => o.is_err() as u8,
    OChk::Always => 0,
    OChk::Parity => out_num(o) % 2,
    OChk::Near | OChk::AtLeast | OChk::Never => 0,
  }
}

/// The stamp an (instrumented) output checker stores.
pub fn stamp_o(c: OChk, o: &Out) -> u8 { match c { OChk::Near | OChk::AtLeast => out_num(o), _ => observe_o(c, o) } }

pub fn rel_o(c: OChk, then: u8, now: u8) -> bool {
  match c { OChk::Near => then.abs_diff(now) <= 1, OChk::AtLeast => now >= then, OChk::Never => false, _ => then == now }
}

#[derive(Serialize, Deserialize, Clone, Debug, PartialEq, Eq, Hash)]
pub enum Target {
  Fixed(u8),
  /// id = base + eval(sel) % span
  Dyn { base: u8, span: u8, sel: Expr },
}

impl Target {
  pub fn resolve(&self, env: &[u8; NVARS]) -> u8 {
    match self {
      Target::Fixed(i) => *i,
      Target::Dyn { base, span, sel } => base + sel.eval(env) % (*span).max(1),
    }
  }
  pub fn pretty(&self, p: &str) -> String {
    match self {
      Target::Fixed(i) => format!("{}{}", p, i),
      Target::Dyn { base, span, sel } => format!("{}[{}+{}%{}]", p, base, sel.pretty(), span),
    }
  }
}

#[derive(Serialize, Deserialize, Clone, Copy, Debug, PartialEq, Eq, Hash)]
pub enum Via { Ctx, WrittenTo }

#[derive(Serialize, Deserialize, Clone, Debug, PartialEq, Eq, Hash)]
pub enum Stmt {
  Read { res: Target, chk: RChk, faulty: bool, var: u8 },
  Require { task: Target, chk: OChk, var: u8 },
  /// `val` evaluates to 0..8: 0..4 writes that value, >=4 only when `may_delete` removes the resource.
  Write { res: Target, chk: RChk, faulty: bool, val: Expr, via: Via },
  If { cond: Expr, then: Vec<Stmt>, els: Vec<Stmt> },
  /// The task panics when `cond` is non-zero (a deterministic, value-dependent task failure).
  PanicIf { cond: Expr },
}

#[derive(Serialize, Deserialize, Clone, Debug, PartialEq, Eq, Hash, Default)]
pub struct Script {
  pub body: Vec<Stmt>,
  pub out: Option<Expr>,
}

#[derive(Serialize, Deserialize, Clone, Debug, PartialEq, Eq, Hash, Default)]
pub struct Program {
  pub tasks: Vec<Script>,
  /// Resources 0..n_src are sources, n_src..n_res are generated.
  pub n_src: u8,
  pub n_res: u8,
  /// Designated writer of generated resource `n_src + i`.
  pub writers: Vec<TaskId>,
  /// Initial resource state.
  pub init: BTreeMap<ResId, Val>,
  /// Tasks may panic for particular values; histories of such programs contain no bottom-up builds (DESIGN P10).
  #[serde(default)]
  pub panicky: bool,
}

impl Program {
  pub fn n_tasks(&self) -> usize { self.tasks.len() }
  pub fn writer_of(&self, r: ResId) -> Option<TaskId> {
    if r >= self.n_src && r < self.n_res { self.writers.get((r - self.n_src) as usize).copied() } else { None }
  }
}

#[derive(Serialize, Deserialize, Clone, Debug, PartialEq, Eq, Hash)]
pub enum Build {
  TopDown(TaskId),
  /// Bottom-up build reporting `report` (in that order), then requiring `then` in the same session.
  BottomUp { report: Vec<ResId>, then: Vec<TaskId> },
  /// External change made while the session is open (only in the long-session class; takes effect before the next build).
  Change { res: ResId, val: Option<Val> },
}

#[derive(Serialize, Deserialize, Clone, Debug, PartialEq, Eq, Hash)]
pub enum Step {
  /// External change; only between sessions (P1).
  Change { res: ResId, val: Option<Val> },
  Session { builds: Vec<Build> },
  /// Probe session inserted by an oracle: requires the listed tasks top-down.
  Probe { roots: Vec<TaskId> },
  /// Fault set for `Faulty` checkers from now on (C18).
  SetFaults { faults: Vec<(ResId, RChk)> },
  /// The `after`-th task-side operation point of the next build panics (C19). 0 = disarmed.
  ArmPanic { after: u32 },
}

#[derive(Serialize, Deserialize, Clone, Debug, PartialEq, Eq, Hash, Default)]
pub struct History {
  pub steps: Vec<Step>,
}

/// What an injection operator did to an otherwise well-formed program (C05-C07), for the oracle and the evidence.
#[derive(Serialize, Deserialize, Clone, Debug, PartialEq, Eq, Hash)]
pub enum Inject {
  Hidden { g: ResId, writer: TaskId, reader: TaskId },
  Overlap { g: ResId, w1: TaskId, w2: TaskId },
  Cycle { from: TaskId, to: TaskId, guarded: bool },
  /// One violation of the given kind that exists only while source `src` has particular values (C19 diag, C20 guarded).
  Guarded { kind: String, src: ResId },
}

#[derive(Serialize, Deserialize, Clone, Debug, PartialEq, Eq, Hash, Default)]
pub struct Case {
  pub prog: Program,
  pub hist: History,
  #[serde(default)]
  pub inject: Option<Inject>,
}

// ---------------------------------------------------------------------------------------------------------------------
// Pretty printer

fn pp_block(out: &mut String, block: &[Stmt], indent: usize) {
  let pad = " ".repeat(indent);
  for s in block {
    match s {
      Stmt::Read { res, chk, faulty, var } => { let _ = writeln!(out, "{}v{} = read {} [{:?}{}]", pad, var, res.pretty("r"), chk, if *faulty { "!" } else { "" }); }
      Stmt::Require { task, chk, var } => { let _ = writeln!(out, "{}v{} = require {} [{:?}]", pad, var, task.pretty("T"), chk); }
      Stmt::Write { res, chk, faulty, val, via } => { let _ = writeln!(out, "{}write {} := {} [{:?}{}] via {:?}", pad, res.pretty("r"), val.pretty(), chk, if *faulty { "!" } else { "" }, via); }
      Stmt::PanicIf { cond } => { let _ = writeln!(out, "{}panic if {}", pad, cond.pretty()); }
      Stmt::If { cond, then, els } => {
        let _ = writeln!(out, "{}if {} {{", pad, cond.pretty());
        pp_block(out, then, indent + 2);
        if !els.is_empty() {
          let _ = writeln!(out, "{}}} else {{", pad);
          pp_block(out, els, indent + 2);
        }
        let _ = writeln!(out, "{}}}", pad);
      }
    }
  }
}

pub fn pretty_program(p: &Program) -> String {
  let mut s = String::new();
  let _ = writeln!(s, "sources r0..r{} generated r{}..r{} writers {:?} init {:?}", p.n_src, p.n_src, p.n_res, p.writers, p.init);
  for (i, t) in p.tasks.iter().enumerate() {
    let _ = writeln!(s, "task T{}:", i);
    pp_block(&mut s, &t.body, 2);
    let _ = writeln!(s, "  out {}", t.out.as_ref().map(|e| e.pretty()).unwrap_or_else(|| "0".into()));
  }
  s
}

pub fn pretty_history(h: &History) -> String {
  let mut s = String::new();
  for st in &h.steps {
    match st {
      Step::Change { res, val } => { let _ = writeln!(s, "change r{} := {:?}", res, val); }
      Step::Session { builds } => {
        let _ = write!(s, "session:");
        for b in builds {
          match b {
            Build::TopDown(t) => { let _ = write!(s, " require(T{})", t); }
            Build::BottomUp { report, then } => { let _ = write!(s, " bottom-up(report {:?}; then {:?})", report, then); }
            Build::Change { res, val } => { let _ = write!(s, " [meanwhile r{} := {:?}]", res, val); }
          }
        }
        let _ = writeln!(s);
      }
      Step::Probe { roots } => { let _ = writeln!(s, "probe: require {:?}", roots); }
      Step::SetFaults { faults } => { let _ = writeln!(s, "faults := {:?}", faults); }
      Step::ArmPanic { after } => { let _ = writeln!(s, "arm panic at op {}", after); }
    }
  }
  s
}

pub fn pretty_case(c: &Case) -> String {
  let inj = match &c.inject { Some(i) => format!("injected: {:?}\n", i), None => String::new() };
  format!("{}{}{}", inj, pretty_program(&c.prog), pretty_history(&c.hist))
}
