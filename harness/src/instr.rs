//! Linear scans over the unified log: instrumentation oracles (C09 stamp timeliness, C17 nesting and faithfulness).

use std::collections::BTreeMap;

use crate::accept::Finding;
use crate::interp::{ochk_text, ostamp_text, rchk_text, Ev, StampRoute, Verdict, L};
use crate::lang::*;

fn f(tag: &'static str, msg: String) -> Finding { Finding { tag, msg } }

/// C09: every `Context::read` stamps the very reader handed to the task before the task consumes it; every
/// `Context::write` stamps the writer the write function used, after it ran; `written_to` stamps the state at call time;
/// `require` stamps the output returned to the requirer; every `check` receives the checker and stamp of creation.
pub fn stamp_timeliness(log: &[L]) -> Vec<Finding> {
  let mut out = vec![];
  let n = log.len();
  let mut i = 0;
  while i < n {
    match &log[i] {
      L::TReadCall { t, r, chk, faulty } => {
        // Window up to the matching TReadRet / TReadErr of the same task (reads do not nest other task code).
        let mut j = i + 1;
        let mut handles = vec![];
        let mut stamps = vec![];
        let mut consumed_at = None;
        let mut ret = None;
        let mut aborted = false;
        while j < n {
          match &log[j] {
            L::RRead { r: rr, h, val } if rr == r => handles.push((*h, *val, j)),
            L::CStamp { chk: c, faulty: fl, r: rr, route, stamp } => stamps.push((*c, *fl, *rr, route.clone(), *stamp, j)),
            L::RConsumed { h } => { if consumed_at.is_none() { consumed_at = Some((*h, j)); } }
            L::TReadRet { t: tt, h, seen, .. } if tt == t => { ret = Some((*h, *seen)); break; }
            L::TReadErr { t: tt, .. } if tt == t => { break; }
            L::Aborted => { aborted = true; break; }
            _ => {}
          }
          j += 1;
        }
        if let (Some((h, seen)), false) = (ret, aborted) {
          if handles.len() != 1 { out.push(f("c09-read", format!("@{} T{} read r{}: {} readers were created for one Context::read", i, t, r, handles.len()))); }
          if let Some((h0, val, _)) = handles.first() {
            if *h0 != h { out.push(f("c09-read", format!("@{} T{} read r{}: the task received reader #{} but reader #{} was created", i, t, r, h, h0))); }
            if *val != seen { out.push(f("c09-read", format!("@{} T{} read r{}: reader created with {:?} but the task saw {:?}", i, t, r, val, seen))); }
          }
          let mine: Vec<_> = stamps.iter().filter(|s| s.2 == *r).collect();
          if mine.len() != 1 {
            out.push(f("c09-read", format!("@{} T{} read r{}: {} stamps were taken for one read dependency", i, t, r, mine.len())));
          }
          for s in mine {
            if s.0 != *chk || s.1 != *faulty { out.push(f("c09-read", format!("@{} T{} read r{}: stamped by checker {:?} instead of the passed {:?}", i, t, r, s.0, chk))); }
            match &s.3 {
              StampRoute::Reader(hh) if *hh == h => {}
              other => out.push(f("c09-read", format!("@{} T{} read r{}: stamp taken via {:?}, not from the reader #{} handed to the task", i, t, r, other, h))),
            }
            if let Some((ch, cj)) = consumed_at { if ch == h && cj < s.5 { out.push(f("c09-read", format!("@{} T{} read r{}: the task consumed the reader before it was stamped", i, t, r))); } }
            if s.4 != stamp_r(*chk, seen) { out.push(f("c09-read", format!("@{} T{} read r{}: stamp {} does not describe the value {:?} the task saw", i, t, r, s.4, seen))); }
          }
        }
        i = j.max(i + 1);
        continue;
      }
      L::TWriteCall { t, r, chk, faulty, via } => {
        let mut j = i + 1;
        let mut writer_h = None;
        let mut fn_at = None;
        let mut stamps = vec![];
        let mut done = false;
        let mut aborted = false;
        while j < n {
          match &log[j] {
            L::RWrite { r: rr, h } if rr == r => { if writer_h.is_none() { writer_h = Some(*h); } }
            L::TWriteFn { t: tt, h, val, .. } if tt == t => { fn_at = Some((*h, *val, j)); }
            L::CStamp { chk: c, faulty: fl, r: rr, route, stamp } if rr == r => stamps.push((*c, *fl, route.clone(), *stamp, j)),
            L::TWriteRet { t: tt, .. } if tt == t => { done = true; break; }
            L::TWriteErr { t: tt, .. } if tt == t => { break; }
            L::Aborted => { aborted = true; break; }
            _ => {}
          }
          j += 1;
        }
        if done && !aborted {
          if stamps.len() != 1 { out.push(f("c09-write", format!("@{} T{} write r{}: {} stamps were taken for one write dependency", i, t, r, stamps.len()))); }
          if let (Some(s), Some((fh, val, fj))) = (stamps.first(), fn_at) {
            if s.0 != *chk || s.1 != *faulty { out.push(f("c09-write", format!("@{} T{} write r{}: stamped by checker {:?} instead of the passed {:?}", i, t, r, s.0, chk))); }
            if s.4 < fj { out.push(f("c09-write", format!("@{} T{} write r{}: stamp taken before the task's write finished", i, t, r))); }
            match (via, &s.2) {
              (Via::Ctx, StampRoute::Writer(h)) if *h == fh => {}
              (Via::WrittenTo, StampRoute::Direct) => {}
              (_, other) => out.push(f("c09-write", format!("@{} T{} write r{} via {:?}: stamp taken via {:?} (writer used by the task: #{})", i, t, r, via, other, fh))),
            }
            if s.3 != stamp_r(*chk, val) { out.push(f("c09-write", format!("@{} T{} write r{}: stamp {} does not describe the written value {:?}", i, t, r, s.3, val))); }
          }
        }
        i = j.max(i + 1);
        continue;
      }
      _ => {}
    }
    i += 1;
  }
  // Requires: the stamp in require_end describes the output the requirer received.
  let mut pending: Vec<(TaskId, TaskId, OChk)> = vec![];
  let mut last_end: BTreeMap<(usize, TaskId), (String, String, Out)> = BTreeMap::new();
  for (i, l) in log.iter().enumerate() {
    match l {
      L::TRequireCall { t, dst, chk } => pending.push((*t, *dst, *chk)),
      L::E(Ev::RequireEnd { t, chk, stamp, out: o }) => { last_end.insert((pending.len(), *t), (chk.clone(), stamp.clone(), *o)); }
      L::TRequireRet { t, dst, out: o } => {
        if let Some((pt, pd, chk)) = pending.last().cloned() {
          if pt == *t && pd == *dst {
            match last_end.remove(&(pending.len(), *dst)) {
              Some((c, s, eo)) => {
                if eo != *o { out.push(f("c09-require", format!("@{} T{} require T{}: require_end carries {:?} but the requirer received {:?}", i, t, dst, eo, o))); }
                if c != ochk_text(chk) || s != ostamp_text(chk, o) { out.push(f("c09-require", format!("@{} T{} require T{}: dependency stamped {}/{} but the requirer passed {:?} and received {:?} (expected {}/{})", i, t, dst, c, s, chk, o, ochk_text(chk), ostamp_text(chk, o)))); }
              }
              None => out.push(f("c09-require", format!("@{} T{} require T{} returned without a require_end event", i, t, dst))),
            }
            pending.pop();
          }
        }
      }
      L::Aborted => { pending.clear(); last_end.clear(); }
      _ => {}
    }
  }
  // Checks: the checker itself receives the stamp the tracker reports, once per check.
  let mut i = 0;
  while i < n {
    let (r, chk, stamp, bottom_up) = match &log[i] {
      L::E(Ev::CheckResStart { r, chk, stamp }) => (Some(*r), chk.clone(), stamp.clone(), false),
      L::E(Ev::CheckReadStart { chk, stamp, .. }) => (None, chk.clone(), stamp.clone(), true),
      _ => { i += 1; continue; }
    };
    let mut j = i + 1;
    let mut checks = vec![];
    let mut end = None;
    while j < n {
      match &log[j] {
        L::CCheck { chk: c, faulty, r: rr, stamp: s, verdict } => checks.push((rchk_text(*c, *faulty), *rr, format!("s{}", s), *verdict)),
        L::E(Ev::CheckResEnd { verdict, .. }) if !bottom_up => { end = Some(*verdict); break; }
        L::E(Ev::CheckReadEnd { verdict, .. }) if bottom_up => { end = Some(*verdict); break; }
        L::Aborted => break,
        _ => {}
      }
      j += 1;
    }
    if let Some(v) = end {
      if checks.len() != 1 { out.push(f("c09-check", format!("@{} dependency check invoked the checker {} times", i, checks.len()))); }
      if let Some((c, rr, s, cv)) = checks.first() {
        if *c != chk || *s != stamp || r.map(|x| x != *rr).unwrap_or(false) { out.push(f("c09-check", format!("@{} check reported for {}/{} but the checker received {}/{} on r{}", i, chk, stamp, c, s, rr))); }
        if *cv != v { out.push(f("c09-check", format!("@{} checker answered {:?} but pie reported {:?}", i, cv, v))); }
      }
    }
    i = j.max(i + 1);
  }
  out
}

/// C17: stack machine over the tracker stream: every end closes the innermost open start of the same kind and subject.
/// Returns findings and the maximum nesting depth.
pub fn nesting(events: &[Ev], aborted_ok: bool) -> (Vec<Finding>, usize) {
  let marked: Vec<Option<Ev>> = events.iter().cloned().map(Some).collect();
  nesting_marked(&marked, aborted_ok)
}

/// Same over a whole log: `L::Aborted` (a build cut by a panic) is the only place where unclosed starts are tolerated.
pub fn nesting_log(log: &[L]) -> (Vec<Finding>, usize) {
  let marked: Vec<Option<Ev>> = log.iter().filter_map(|l| match l { L::E(e) => Some(Some(e.clone())), L::Aborted => Some(None), _ => None }).collect();
  nesting_marked(&marked, false)
}

fn nesting_marked(events: &[Option<Ev>], aborted_ok: bool) -> (Vec<Finding>, usize) {
  #[derive(Debug, PartialEq, Clone)]
  enum Open { Build, Require(TaskId, String), Read(ResId, String), Write(ResId, String), CheckTask(TaskId, String, String), CheckRes(ResId, String, String), Exec(TaskId), SchedTask(TaskId), CheckReq(TaskId, String, String), SchedRes(ResId), CheckRead(TaskId, String, String) }
  let mut stack: Vec<Open> = vec![];
  let mut out = vec![];
  let mut maxd = 0;
  let mut close = |stack: &mut Vec<Open>, want: Open, i: usize, out: &mut Vec<Finding>| {
    match stack.pop() {
      Some(top) if top == want => {}
      Some(top) => out.push(f("c17-nesting", format!("event #{}: end of {:?} but the innermost open start is {:?}", i, want, top))),
      None => out.push(f("c17-nesting", format!("event #{}: end of {:?} without any open start", i, want))),
    }
  };
  for (i, ev) in events.iter().enumerate() {
    let Some(ev) = ev else { stack.clear(); continue; };
    match ev {
      Ev::BuildStart => {
        if !stack.is_empty() && !aborted_ok { out.push(f("c17-nesting", format!("event #{}: build_start while {:?} are open", i, stack))); }
        stack.clear();
        stack.push(Open::Build);
      }
      Ev::BuildEnd => close(&mut stack, Open::Build, i, &mut out),
      Ev::RequireStart { t, chk } => stack.push(Open::Require(*t, chk.clone())),
      Ev::RequireEnd { t, chk, .. } => close(&mut stack, Open::Require(*t, chk.clone()), i, &mut out),
      Ev::ReadStart { r, chk } => stack.push(Open::Read(*r, chk.clone())),
      Ev::ReadEnd { r, chk, .. } => close(&mut stack, Open::Read(*r, chk.clone()), i, &mut out),
      Ev::WriteStart { r, chk } => stack.push(Open::Write(*r, chk.clone())),
      Ev::WriteEnd { r, chk, .. } => close(&mut stack, Open::Write(*r, chk.clone()), i, &mut out),
      Ev::CheckTaskStart { t, chk, stamp } => stack.push(Open::CheckTask(*t, chk.clone(), stamp.clone())),
      Ev::CheckTaskEnd { t, chk, stamp, .. } => close(&mut stack, Open::CheckTask(*t, chk.clone(), stamp.clone()), i, &mut out),
      Ev::CheckResStart { r, chk, stamp } => stack.push(Open::CheckRes(*r, chk.clone(), stamp.clone())),
      Ev::CheckResEnd { r, chk, stamp, .. } => close(&mut stack, Open::CheckRes(*r, chk.clone(), stamp.clone()), i, &mut out),
      Ev::ExecStart { t } => stack.push(Open::Exec(*t)),
      Ev::ExecEnd { t, .. } => close(&mut stack, Open::Exec(*t), i, &mut out),
      Ev::SchedByTaskStart { t } => stack.push(Open::SchedTask(*t)),
      Ev::SchedByTaskEnd { t } => close(&mut stack, Open::SchedTask(*t), i, &mut out),
      Ev::CheckReqStart { t, chk, stamp } => stack.push(Open::CheckReq(*t, chk.clone(), stamp.clone())),
      Ev::CheckReqEnd { t, chk, stamp, .. } => close(&mut stack, Open::CheckReq(*t, chk.clone(), stamp.clone()), i, &mut out),
      Ev::SchedByResStart { r } => stack.push(Open::SchedRes(*r)),
      Ev::SchedByResEnd { r } => close(&mut stack, Open::SchedRes(*r), i, &mut out),
      Ev::CheckReadStart { t, chk, stamp } => stack.push(Open::CheckRead(*t, chk.clone(), stamp.clone())),
      Ev::CheckReadEnd { t, chk, stamp, .. } => close(&mut stack, Open::CheckRead(*t, chk.clone(), stamp.clone()), i, &mut out),
      Ev::Schedule { .. } => {}
    }
    maxd = maxd.max(stack.len());
    if out.len() > 4 { break; }
  }
  if !stack.is_empty() && !aborted_ok {
    out.push(f("c17-nesting", format!("stream ended with unclosed starts {:?}", stack)));
  }
  (out, maxd)
}

/// C17: every task execution that really ran appears exactly once in the tracker stream, with the output it returned;
/// operations that completed on the task side have both their start and end events.
pub fn faithfulness(log: &[L]) -> Vec<Finding> {
  let mut out = vec![];
  // execute_start immediately precedes TEnter (among task/tracker entries), TExit immediately precedes execute_end.
  let sig: Vec<(usize, &L)> = log.iter().enumerate().filter(|(_, l)| matches!(l, L::E(_) | L::TEnter(_) | L::TExit(..) | L::TReadRet { .. } | L::TWriteRet { .. } | L::TRequireRet { .. } | L::Aborted)).collect();
  for k in 0..sig.len() {
    let (i, l) = sig[k];
    match l {
      L::TEnter(t) => {
        let ok = k > 0 && matches!(sig[k - 1].1, L::E(Ev::ExecStart { t: x }) if x == t);
        if !ok { out.push(f("c17-exec", format!("@{} T{} started executing without an execute_start event right before it", i, t))); }
      }
      L::E(Ev::ExecStart { t }) => {
        let ok = k + 1 < sig.len() && matches!(sig[k + 1].1, L::TEnter(x) if x == t);
        if !ok { out.push(f("c17-exec", format!("@{} execute_start(T{}) is not followed by the task actually starting", i, t))); }
      }
      L::TExit(t, o) => {
        let ok = k + 1 < sig.len() && matches!(sig[k + 1].1, L::E(Ev::ExecEnd { t: x, out }) if x == t && out == o);
        if !ok { out.push(f("c17-exec", format!("@{} T{} returned {:?} but the next event is {:?}, not execute_end with that output", i, t, o, sig.get(k + 1).map(|x| x.1)))); }
      }
      L::E(Ev::ExecEnd { t, out: o }) => {
        let ok = k > 0 && matches!(sig[k - 1].1, L::TExit(x, oo) if x == t && oo == o);
        if !ok { out.push(f("c17-exec", format!("@{} execute_end(T{}, {:?}) without the task having just returned that output", i, t, o))); }
      }
      L::TReadRet { t, r, .. } => {
        // a completed read has read_start .. read_end for r just before it
        let ok = k >= 2 && matches!(sig[k - 1].1, L::E(Ev::ReadEnd { r: x, .. }) if x == r) && matches!(sig[k - 2].1, L::E(Ev::ReadStart { r: x, .. }) if x == r);
        if !ok { out.push(f("c17-ops", format!("@{} T{} completed a read of r{} without read_start/read_end events around it", i, t, r))); }
      }
      L::TWriteRet { t, r } => {
        let ok = k >= 1 && matches!(sig[k - 1].1, L::E(Ev::WriteEnd { r: x, .. }) if x == r);
        if !ok { out.push(f("c17-ops", format!("@{} T{} completed a write of r{} without a write_end event right before returning", i, t, r))); }
      }
      L::TRequireRet { t, dst, out: o } => {
        let ok = k >= 1 && matches!(sig[k - 1].1, L::E(Ev::RequireEnd { t: x, out: oo, .. }) if x == dst && oo == o);
        if !ok { out.push(f("c17-ops", format!("@{} T{} got {:?} from require(T{}) but the preceding event is {:?}", i, t, o, dst, sig.get(k.wrapping_sub(1)).map(|x| x.1)))); }
      }
      _ => {}
    }
    if out.len() > 4 { break; }
  }
  out
}

/// Only the tracker events of a log slice.
pub fn events_of(log: &[L]) -> Vec<Ev> {
  log.iter().filter_map(|l| if let L::E(e) = l { Some(e.clone()) } else { None }).collect()
}

/// Expected Debug text of pie's `EventTracker` events for a stream (projection onto its ten kinds, index = position).
pub fn event_tracker_projection(events: &[Ev]) -> Vec<String> {
  let mut out: Vec<String> = vec![];
  for ev in events {
    let index = out.len();
    match ev {
      Ev::BuildStart => { out.clear(); out.push("BuildStart".into()); }
      Ev::BuildEnd => out.push("BuildEnd".into()),
      Ev::RequireStart { t, chk } => out.push(format!("RequireStart(RequireStart {{ task: T{}, checker: {}, index: {} }})", t, chk, index)),
      Ev::RequireEnd { t, chk, stamp, out: o } => out.push(format!("RequireEnd(RequireEnd {{ task: T{}, checker: {}, stamp: {}, output: {:?}, index: {} }})", t, chk, stamp, o, index)),
      Ev::ReadStart { r, chk } => out.push(format!("ReadStart(ResourceStart {{ resource: r{}, checker: {}, index: {} }})", r, chk, index)),
      Ev::ReadEnd { r, chk, stamp } => out.push(format!("ReadEnd(ResourceEnd {{ resource: r{}, checker: {}, stamp: {}, index: {} }})", r, chk, stamp, index)),
      Ev::WriteStart { r, chk } => out.push(format!("WriteStart(ResourceStart {{ resource: r{}, checker: {}, index: {} }})", r, chk, index)),
      Ev::WriteEnd { r, chk, stamp } => out.push(format!("WriteEnd(ResourceEnd {{ resource: r{}, checker: {}, stamp: {}, index: {} }})", r, chk, stamp, index)),
      Ev::ExecStart { t } => out.push(format!("ExecuteStart(ExecuteStart {{ task: T{}, index: {} }})", t, index)),
      Ev::ExecEnd { t, out: o } => out.push(format!("ExecuteEnd(ExecuteEnd {{ task: T{}, output: {:?}, index: {} }})", t, o, index)),
      _ => {}
    }
  }
  out
}

#[allow(dead_code)]
fn _unused(_: Verdict) {}
