use std::path::Path;

use pv::driver::{install_quiet_panic_hook, Tier};

fn usage() -> ! {
  eprintln!("usage: pv check <Cxx> <quick|thorough> | pv replay <file>");
  std::process::exit(2)
}

fn main() {
  let args: Vec<String> = std::env::args().collect();
  if args.len() < 2 { usage(); }
  install_quiet_panic_hook();
  let seed: u64 = std::env::var("VERIF_SEED").ok().and_then(|s| s.trim().parse::<i64>().ok()).map(|x| x as u64).unwrap_or(0);
  match args[1].as_str() {
    "check" => {
      if args.len() < 4 { usage(); }
      let tier = match args[3].as_str() { "quick" => Tier::Quick, "thorough" => Tier::Thorough, _ => usage() };
      std::process::exit(pv::props::run(&args[2], tier, seed));
    }
    "replay" => {
      if args.len() < 3 { usage(); }
      let path = Path::new(&args[2]);
      match pv::props::replay(path) {
        Ok(Ok(())) => { println!("replay {}: property holds", path.display()); std::process::exit(0); }
        Ok(Err(f)) => {
          let prop = pv::driver::replay_label(path).map(|x| x.0).unwrap_or_default();
          println!("VIOLATION property={} replay={}", prop, path.display());
          println!("  reason: {}", f.msg);
          if let Some(s) = f.sig { println!("  signature: {}", s); }
          std::process::exit(1);
        }
        Err(e) => { eprintln!("{}", e); std::process::exit(2); }
      }
    }
    "trace" => {
      if args.len() < 3 { usage(); }
      match pv::props::build::trace_digest_of_file(Path::new(&args[2])) {
        Ok(d) => { println!("digest {}", d); std::process::exit(0); }
        Err(e) => { eprintln!("{}", e); std::process::exit(2); }
      }
    }
    _ => usage(),
  }
}
