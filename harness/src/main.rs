use std::path::Path;

use pv::driver::{install_quiet_panic_hook, Tier};

fn usage() -> ! {
  eprintln!("usage: pv check <Cxx> <quick|thorough> | pv replay <file>");
  std::process::exit(2)
}

fn main() {
  let args: Vec<String> = std::env::args().collect();
  if args.len() < 2 { usage(); }
  install_quiet_panic_hook();
  let seed: u64 = std::env::var("VERIF_SEED").ok().and_then(|s| s.trim().parse::<i64>().ok()).map(|x| x as u64).unwrap_or(0);
  match args[1].as_str() {
    "check" => {
      if args.len() < 4 { usage(); }
      let tier = match args[3].as_str() { "quick" => Tier::Quick, "thorough" => Tier::Thorough, _ => usage() };
      std::process::exit(pv::props::run(&args[2], tier, seed));
    }
    "replay" => {
      if args.len() < 3 { usage(); }
      let path = Path::new(&args[2]);
      match pv::props::replay(path) {
        Ok(Ok(())) => { println!("replay {}: property holds", path.display()); std::process::exit(0); }
        Ok(Err(f)) => {
          let prop = pv::driver::replay_label(path).map(|x| x.0).unwrap_or_default();
          println!("VIOLATION property={} replay={}", prop, path.display());
          println!("  reason: {}", f.msg);
          if let Some(s) = f.sig { println!("  signature: {}", s); }
          std::process::exit(1);
        }
        Err(e) => { eprintln!("{}", e); std::process::exit(2); }
      }
    }
    "show" => {
      // pv show <replay file>: prints the unified log of the (transformed) case, for debugging.
      if args.len() < 3 { usage(); }
      let path = Path::new(&args[2]);
      let (prop, _label) = pv::driver::replay_label(path).expect("replay file");
      let (_, _, case): (_, _, pv::lang::Case) = pv::driver::load_replay(path).expect("case");
      let spec = pv::props::build::spec_of(&prop).expect("spec");
      let tcase = (spec.transform)(&case);
      println!("{}", pv::lang::pretty_case(&tcase));
      let run = pv::engine::run_case(&tcase, &(spec.opts)());
      for (si, s) in run.sessions.iter().enumerate() {
        println!("== session {} (step {}) state_before {:?} changed {:?}", si, s.step, s.state_before, s.changed_before);
        for b in &s.builds {
          println!("-- build {:?} -> {:?}", b.kind, b.result);
          for (i, l) in run.log[b.log.clone()].iter().enumerate() { println!("   {:4} {:?}", b.log.start + i, l); }
        }
      }
      std::process::exit(0);
    }
    "c12-battery" => {
      let first: usize = args.get(2).and_then(|x| x.parse().ok()).unwrap_or(0);
      match pv::props::checkers::battery(first) {
        Ok(()) => std::process::exit(0),
        Err(f) => { println!("BATTERY-FAILED {}", f.msg); std::process::exit(1); }
      }
    }
    "trace" => {
      if args.len() < 3 { usage(); }
      match pv::props::build::trace_digest_of_file(Path::new(&args[2])) {
        Ok(d) => { println!("digest {}", d); std::process::exit(0); }
        Err(e) => { eprintln!("{}", e); std::process::exit(2); }
      }
    }
    _ => usage(),
  }
}
