#!/usr/bin/env python3
"""Generates /verif/MANIFEST.json from the table below."""
import json, subprocess
PBT = "property-based testing (proptest-generated cases, constructive generators, own shrink loop; libFuzzer campaign in the thorough tier where the case is a program x history value or a DAG op sequence)"
checks = {
 "C01": ("exploration", "generated task programs x histories (top-down sessions, external changes, task failures, and bottom-up sessions with arbitrary possibly incomplete reports as unjudged history), every returning require compared with a from-scratch evaluator (output and whole resource state); differential oracle", PBT + "; model-based differential against a from-scratch evaluator", "§7 C01"),
 "C02": ("exploration", "trace acceptor over tracker events + task-side log: validation order, justification of every execution (checker errors included), at-most-once, idempotence probes, exact-checker minimality; equivalence and non-equivalence checkers", PBT + "; trace acceptor over generated histories", "§7 C02"),
 "C03": ("exploration", "complete-report bottom-up histories (over-reports, duplicate reports, several bottom-up builds per session, sessions kept open across external changes) followed by probe sessions requiring every task: nothing known executes, outputs/resources equal from-scratch; acceptor demands complete checking/scheduling", PBT + "; probe sessions + from-scratch differential", "§7 C03"),
 "C04": ("exploration", "bottom-up trace acceptor: executions only of justified scheduled tasks or first-time tasks, once per build (also counted from the task-side log), never before a scheduled dependency, consistent checks never schedule", PBT + "; trace acceptor", "§7 C04"),
 "C05": ("exploration", "well-formed programs with one injected read without the required task dependency; access-time oracle on the task-side log and shadow record, in every order, session split and build mode", PBT + " with injected violations; task-side/shadow-record oracle", "§7 C05"),
 "C06": ("exploration", "well-formed programs with an injected second writer (context write and written_to); write function must not run / call must not return / abort must be an overlap error; negative half: single writers re-executed never overlap, also after builds aborted by task failures and injected panics and rebuilt top-down or bottom-up", PBT + " with injected violations; task-side/shadow-record oracle", "§7 C06"),
 "C07": ("exploration", "well-formed programs with an injected (optionally value-guarded) back-require closing a cycle of any length; interpreter stack is ground truth: nothing may execute or return after requiring an executing task, abort must be a cycle error", PBT + " with injected violations; task-side stack oracle with recursion sentinel", "§7 C07"),
 "C08": ("exploration", "read-only store dump (hook) compared edge by edge (kind, target, checker text, stamp text, order) and output with the dependencies the last execution created per the task-side log, after every session, also across diagnosed aborts (state-dependent violations) and injected panics; plus event-level consequences", PBT + "; store dump vs shadow record (hook gohla_pie_verif)", "§7 C08"),
 "C09": ("exploration", "instrumented checkers/handles log every stamp and check call; timeliness and identity of stamps and decision fidelity checked on every generated history; checker zoo: exact, parity, existence, always, tolerance band and lower bound (non-transitive / non-symmetric relations) on reads, writes and requires", PBT + "; instrumentation oracle", "§7 C09"),
 "C10": ("exploration", "generated operation sequences against a naive reference graph plus exhaustive small-scope enumeration", PBT + " over operation sequences; reference model; small-scope exhaustive enumeration", "§7 C10"),
 "C11": ("exploration", "all queries for all node pairs after every generated operation against the reference graph; generated single queries and sparse sweeps (state carried between queries); exhaustive small scopes incl. all mutator/reachability-query interleavings", PBT + " over operation sequences; reference model; small-scope exhaustive enumeration", "§7 C11"),
 "C12": ("exploration", "exhaustive over all pairs of an 8-value Result domain and of the zero-sized-payload domains x 5 checkers x 2 routes, plus generated pairs over larger types (strings, tuples, wide arrays, unit structs, types whose Debug and Eq disagree); oracle = documented relation", PBT + " + exhaustive small domain; relational oracle", "§7 C12"),
 "C13": ("exploration", "generated (state, state, checker) triples and sequences of 2-6 states on one Pie resource state, on a real temp directory with explicitly set mtimes (whole-second and sub-second parts); stamp-route agreement, exact detection of the observed aspect for every earlier stamp in every later state, reader position, writer semantics", PBT + " over filesystem states (explicit state machine, explicit mtimes)", "§7 C13"),
 "C14": ("exploration", "generated operation sequences over four key types with equal raw keys (dynamic keys over newtypes, u8, zero-sized types and Box wrappers) and raw typed state calls on four resource types against a reference map and slot model, everything compared after every op", PBT + " over operation sequences; reference model", "§7 C14"),
 "C15": ("exploration", "generated key lists from ten same-bytes task types (newtypes, Box/Rc/Arc wrappers, zero-sized types, a task resolving same-hash resources back to back) and four resource types inside a real Pie instance (top-down and bottom-up) plus all-pairs dyn KeyObj equality/hash", PBT + "; (type,value) identity model", "§7 C15"),
 "C16": ("exploration", "every generated case (incl. task failures and checker errors) replayed on fresh instances in-process - with unrelated instances, one of them aborted by a rejected cycle, built in between - and in fresh processes; complete event/operation log, results, error lists and resource states must be identical", PBT + "; replay-equality oracle within and across processes", "§7 C16"),
 "C17": ("exploration", "stack-machine nesting check, task-side/tracker agreement, composite stream equality, EventTracker projection; plus API-level call sequences against reference helpers", PBT + "; stack-machine invariant over event streams; reference implementations of helpers", "§7 C17"),
 "C18": ("fault_enumeration", "generated fault sets for Faulty checkers over generated histories: errors reported exactly, owners re-executed/scheduled and nothing else (full trace acceptor under faults), no abort, results equal from-scratch", PBT + " with injected checker faults (random and enumerated fault subsets)", "§7 C18"),
 "C20": ("exploration", "(a) static-role programs never abort, also in bottom-up builds after aborted builds; (b) role-changing programs and programs with one state-dependent violation: an abort is spurious unless the from-scratch evaluator of all known tasks aborts too; stale-edge patterns are recorded findings with signatures over the model and the task-side record", PBT + "; from-scratch evaluator as violation oracle; role-changing program generator", "§7 C20"),
 "C19": ("fault_enumeration", "panic injected at generated and, for sampled cases, every operation point of a build, task failures, and diagnosed violations that exist only in some states (cause removed or not afterwards); later top-down builds must equal from-scratch or abort for a violation a from-scratch build confirms, and never fail internally", PBT + " with injected aborts; crash-point enumeration for sampled cases", "§7 C19"),
}
notes = {}
all_props = [f"C{i:02d}" for i in range(1, 21)]
m = {
 "version": 1,
 "setup_cmd": "cd harness && CARGO_NET_OFFLINE=true cargo build --release --offline",
 "hooks": {
   "guard": "cargo feature gohla_pie_verif of crate pie",
   "enable": "harness/Cargo.toml depends on /repo/pie with features [file_hash_checker, gohla_pie_verif]; every ./check run rebuilds",
   "baseline_off_cmd": "cd /repo && cargo test --workspace --no-fail-fast --offline",
   "source_commits": ["9403728"],
   "add_only": True,
 },
 "engines": [{"name": "pv", "path": "harness", "serves_properties": sorted(checks), "kind_free_text": "Rust crate: proptest-driven constructive generators (task-program language, DAG op sequences), from-scratch evaluator, shadow dependency record, trace acceptors, instrumented resource/checkers/tracker, own shrink loop, JSON replay files"}],
 "checks": [],
 "notes": "Known findings are listed in known_findings.json (C03-F1, C05-F1, C08-F1/F2, C19-F1/F2, C20-F1..F6); fix: commits in /repo: b2681e4 (D1 add_edge order), dffaa25 (D3 reserved edge after abort), 267eae4 (D4 directory hash), 148a41c (D2 is_build_end). See DESIGN.md.",
 "not_applicable": [],
}
for p in all_props:
    if p in checks:
        cat, text, tech, ref = checks[p]
        m["checks"].append({
          "property_id": p, "quick_cmd": f"./check {p} quick", "thorough_cmd": f"./check {p} thorough",
          "evidence_file": f"/verif/evidence/{p}.json", "replay_cmd_template": "./check replay {path}", "engine": "pv",
          "level_claimed": {"category": cat, "text": text, "design_ref": "DESIGN.md " + ref},
          "level_note": "trusts the harness models (from-scratch evaluator, shadow record, checker relations), proptest, std; never establishes absence",
          "technique": tech})
    else:
        m["not_applicable"].append({"property_id": p, "reason": "check not built yet (in progress)"})
json.dump(m, open('/verif/MANIFEST.json', 'w'), indent=1)
print("claimed:", sorted(checks))
