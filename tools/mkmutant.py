#!/usr/bin/env python3
"""mkmutant.py <name> <file-relative-to-/repo> <<< 'OLD\n=====\nNEW'  -> writes /verif/mutants/<name>.diff (does not leave /repo modified)"""
import sys, subprocess, os
name, rel = sys.argv[1], sys.argv[2]
spec = sys.stdin.read()
old, new = spec.split('\n=====\n')
old = old.strip('\n'); new = new.strip('\n')
path = os.path.join('/repo', rel)
src = open(path).read()
if src.count(old) != 1:
    print(f"{name}: old text occurs {src.count(old)} times", file=sys.stderr); sys.exit(1)
open(path, 'w').write(src.replace(old, new, 1))
diff = subprocess.run(['git', '-C', '/repo', 'diff'], capture_output=True, text=True).stdout
subprocess.run(['git', '-C', '/repo', 'checkout', '--', '.'], check=True)
open(f'/verif/mutants/{name}.diff', 'w').write(diff)
print(f"wrote /verif/mutants/{name}.diff ({len(diff.splitlines())} lines)")
