#!/bin/sh
# tools/final_matrix.sh <out.tsv> : every seeded change against its own property (quick tier), in isolated labs.
out="$1"; here="$(cd "$(dirname "$0")/.." && pwd)"
for i in 01 02 03 04 05 06 07 08 09 10 11 12 13 14 15 16 17 18 19 20; do
  ls "$here"/seeded/C${i}*/patch.diff >/dev/null 2>&1 || continue
  python3 "$here/tools/mutlab.py" -j 4 --verif "$here" --props C$i -o "$out" "$here"/seeded/C${i}*/patch.diff
done
