#!/bin/sh
# tools/sweep.sh <tier> <seed>... : runs every check at <tier> for each seed; prints one line per (property, seed).
tier="$1"; shift
here="$(cd "$(dirname "$0")/.." && pwd)"
for seed in "$@"; do
  for i in 01 02 03 04 05 06 07 08 09 10 11 12 13 14 15 16 17 18 19 20; do
    start=$(date +%s)
    VERIF_SEED=$seed "$here/check" C$i "$tier" > "$here/evidence/sweep-C$i-$seed.log" 2>&1
    rc=$?
    echo "C$i seed=$seed tier=$tier rc=$rc wall=$(( $(date +%s) - start ))s $(grep -E 'VIOLATION|reason:' "$here/evidence/sweep-C$i-$seed.log" | head -3 | tr '\n' ' ')"
  done
done
