#!/bin/sh
# runmutant.sh <patch.diff> <tier> <prop>...   applies the patch to /repo, runs the checks, reverts. Prints one line per property.
patch="$(readlink -f "$1")"; tier="$2"; shift 2
cd /repo || exit 2
if ! git diff --quiet; then echo "/repo is dirty" >&2; exit 2; fi
if ! git apply "$patch"; then echo "cannot apply $patch" >&2; exit 2; fi
trap 'git -C /repo checkout -- . ' EXIT INT TERM
for p in "$@"; do
  out=$(cd /verif && ./check "$p" "$tier" 2>&1); rc=$?
  reason=$(echo "$out" | grep -m1 "reason:" | cut -c1-220)
  echo "$(basename "$patch" .diff) $p rc=$rc $reason"
done
