#!/bin/sh
for p in C02 C09 C12 C15 C13 C14; do start=$(date +%s); VERIF_SEED=5 ./check $p thorough > evidence/sweep-$p-5.log 2>&1; echo "$p seed=5 thorough rc=$? wall=$(( $(date +%s)-start ))s $(grep -E 'VIOLATION|reason:' evidence/sweep-$p-5.log | head -2 | tr '\n' ' ')"; done
