#!/usr/bin/env python3
"""mutlab.py [-j N] [-t tier] [-o out.tsv] --props C01,C02 mutant.diff...
Runs each mutant in an isolated scratch copy of /repo + /verif/harness under /tmp/pvlab/<worker> (removed at the end),
so /repo itself is never modified. Prints: mutant prop rc reason."""
import sys, os, subprocess, shutil, argparse, threading, queue, time

ap = argparse.ArgumentParser()
ap.add_argument('-j', type=int, default=4)
ap.add_argument('-t', default='quick')
ap.add_argument('-o', default=None)
ap.add_argument('--props', required=True)
ap.add_argument('--keep', action='store_true')
ap.add_argument('--baseline', action='store_true', help='also run the repository test suite on the mutant')
ap.add_argument('--seed', default='0')
ap.add_argument('--verif', default='/verif', help='verif tree whose harness/regress/findings are used (e.g. a worktree of an older commit)')
ap.add_argument('mutants', nargs='+')
a = ap.parse_args()
props = a.props.split(',')
root = f'/tmp/pvlab-{os.getpid()}'
os.makedirs(root, exist_ok=True)
q = queue.Queue()
for m in a.mutants: q.put(os.path.abspath(m))
lock = threading.Lock()
results = []

import signal
class R:
    def __init__(s, rc, out, err): s.returncode, s.stdout, s.stderr = rc, out, err
def sh(cmd, cwd=None, env=None, timeout=None):
    p = subprocess.Popen(cmd, shell=True, cwd=cwd, env=env, stdout=subprocess.PIPE, stderr=subprocess.PIPE, text=True, start_new_session=True)
    try:
        out, err = p.communicate(timeout=timeout)
        return R(p.returncode, out, err)
    except subprocess.TimeoutExpired:
        try: os.killpg(p.pid, signal.SIGKILL)
        except Exception: pass
        p.communicate()
        raise

def worker(i):
    lab = f'{root}/w{i}'
    shutil.rmtree(lab, ignore_errors=True)
    os.makedirs(lab)
    sh(f'rsync -a --exclude target /repo/ {lab}/repo/')
    sh(f'git -C {lab}/repo checkout -q -- . ; git -C {lab}/repo clean -fdq')
    sh(f'rsync -a --exclude target {a.verif}/harness/ {lab}/harness/')
    sh(f"sed -i 's|/repo/|{lab}/repo/|g' {lab}/harness/Cargo.toml")
    # The lab is a miniature /verif: check script, harness, regress/, findings/, known_findings.json, evidence/.
    os.makedirs(f'{lab}/evidence', exist_ok=True)
    for d in ('regress', 'findings'):
        sh(f'rsync -a {a.verif}/{d}/ {lab}/{d}/')
    shutil.copy(f'{a.verif}/known_findings.json', f'{lab}/known_findings.json')
    shutil.copy(f'{a.verif}/check', f'{lab}/check')
    env = dict(os.environ, CARGO_NET_OFFLINE='true', PV_VERIF_ROOT=lab, VERIF_SEED=a.seed)
    while True:
        try: m = q.get_nowait()
        except queue.Empty: break
        name = ('seeded-' + os.path.basename(os.path.dirname(m))) if os.path.basename(m) == 'patch.diff' else os.path.basename(m)[:-5]
        r = sh(f'git apply {m}', cwd=f'{lab}/repo')
        if r.returncode != 0:
            with lock:
                for p in props: results.append((name, p, 'apply-failed', r.stderr.strip()[:100])); print(name, p, 'apply-failed', flush=True)
            continue
        if a.baseline:
            try:
                t = sh('cargo test --workspace --no-fail-fast --offline 2>&1 | grep -E "^test result" ', cwd=f'{lab}/repo', env=env, timeout=400)
                ok = t.stdout.count('test result: ok') >= 4 and 'FAILED' not in t.stdout
                verdict = 'pass' if ok else 'FAIL'
            except subprocess.TimeoutExpired:
                verdict = 'HANG'
            with lock: results.append((name, 'BASELINE', verdict, '')); print(name, 'BASELINE', verdict, flush=True)
        b = sh('cargo build --release --offline', cwd=f'{lab}/harness', env=env)
        if b.returncode != 0:
            with lock:
                for p in props: results.append((name, p, 'build-failed', b.stderr.strip()[-200:].replace('\n', ' '))); print(name, p, 'build-failed', flush=True)
        else:
            for p in props:
                t0 = time.time()
                try:
                    r = sh(f'sh {lab}/check {p} {a.t}', cwd=lab, env=env, timeout=900)
                    rc = r.returncode
                    reason = ''
                    for line in r.stdout.splitlines():
                        if 'reason:' in line: reason = line.strip()[:240]; break
                except subprocess.TimeoutExpired:
                    rc, reason = 'timeout', ''
                with lock:
                    results.append((name, p, rc, reason)); print(name, p, f'rc={rc}', f'{time.time()-t0:.0f}s', reason, flush=True)
        sh('git checkout -q -- . ; git clean -fdq', cwd=f'{lab}/repo')
    if not a.keep: shutil.rmtree(lab, ignore_errors=True)

ts = [threading.Thread(target=worker, args=(i,)) for i in range(min(a.j, len(a.mutants)))]
for t in ts: t.start()
for t in ts: t.join()
if a.o:
    with open(a.o, 'a') as f:
        for r in sorted(results): f.write('\t'.join(str(x) for x in r) + '\n')
