#!/usr/bin/env python3
"""confirm_seed.py Cxx [Cyy ...]: re-verify a sub-agent's seeded change in its scratch worktree /tmp/seed/Cxx and, if
all three claims hold, copy it to /verif/seeded/Cxx/ (patch.diff, demo.rs, meta.json with a `confirmed` block)."""
import sys, os, json, subprocess, shutil, threading

def sh(cmd, cwd, timeout=1500):
    try:
        p = subprocess.run(cmd, shell=True, cwd=cwd, capture_output=True, text=True, timeout=timeout)
        return p.returncode, p.stdout + p.stderr
    except subprocess.TimeoutExpired:
        return 124, 'timeout'

def confirm(pid, sub=''):
    d = f'/tmp/seed/{pid}{sub}'
    out = {}
    meta = json.load(open(f'{d}/seeded/meta.json'))
    demo_file = meta.get('demo_file')
    demo_cmd = meta.get('demo_cmd')
    if not demo_file or not os.path.exists(f'{d}/{demo_file}'):
        # fall back: find the untracked test file
        rc, o = sh('git status --short', d)
        cands = [l[3:].strip() for l in o.splitlines() if l.startswith('??') and l.strip().endswith('.rs')]
        demo_file = cands[0] if cands else None
    sh('git checkout -q -- pie/src graph/src', d)
    rc, o = sh('git apply --check seeded/patch.diff', d)
    out['patch_applies'] = rc == 0
    if rc != 0:
        return pid, out, False
    # 1. baseline with patch, demo moved away
    tmp = f'{d}/seeded/_demo_aside.rs'
    shutil.move(f'{d}/{demo_file}', tmp)
    sh('git apply seeded/patch.diff', d)
    rc, o = sh('cargo test --workspace --no-fail-fast --offline 2>&1 | grep -E "^test result|FAILED|panicked|error(\\[|:)"', d)
    oks = o.count('test result: ok')
    out['baseline_with_patch'] = {'ok_lines': oks, 'failed': 'FAILED' in o or 'error' in o}
    base_ok = oks >= 9 and 'FAILED' not in o and 'error' not in o
    rc2, o2 = sh('cargo build -p pie --offline --features file_hash_checker,gohla_pie_verif 2>&1 | tail -3', d)
    out['feature_build_ok'] = rc2 == 0 and 'error' not in o2
    shutil.move(tmp, f'{d}/{demo_file}')
    # 2. demo with patch fails
    rc, o = sh(demo_cmd + ' 2>&1 | tail -30', d)
    demo_fails = 'FAILED' in o or 'panicked' in o or 'test result: FAILED' in o
    out['demo_with_patch_fails'] = demo_fails
    out['demo_with_patch_tail'] = o[-600:]
    # 3. demo without patch passes
    sh('git checkout -q -- pie/src graph/src', d)
    rc, o = sh(demo_cmd + ' 2>&1 | tail -15', d)
    demo_passes = 'test result: ok' in o and 'FAILED' not in o
    out['demo_without_patch_passes'] = demo_passes
    ok = base_ok and out['feature_build_ok'] and demo_fails and demo_passes
    if ok:
        dst = f'/verif/seeded/{pid}{sub}'
        os.makedirs(dst, exist_ok=True)
        shutil.copy(f'{d}/seeded/patch.diff', f'{dst}/patch.diff')
        shutil.copy(f'{d}/{demo_file}', f'{dst}/demo.rs')
        meta['demo_file'] = demo_file
        meta['confirmed'] = {'by': 'tools/confirm_seed.py in the scratch worktree', 'baseline_with_patch_ok_result_lines': oks, 'feature_build_ok': out['feature_build_ok'], 'demo_with_patch_fails': demo_fails, 'demo_without_patch_passes': demo_passes}
        json.dump(meta, open(f'{dst}/meta.json', 'w'), indent=1)
    return pid, out, ok

res = {}
def run(a):
    pid, sub = (a.split('/') + [''])[:2] if '/' in a else (a, '')
    try:
        r = confirm(pid, ('/' + sub) if sub else '')
    except Exception as e:
        r = (a, {'error': repr(e)}, False)
    res[a] = r
ts = [threading.Thread(target=run, args=(a,)) for a in sys.argv[1:]]
for t in ts: t.start()
for t in ts: t.join()
for a in sys.argv[1:]:
    pid, out, ok = res[a]
    print(a, 'CONFIRMED' if ok else 'NOT-CONFIRMED', json.dumps({k: v for k, v in out.items() if k != 'demo_with_patch_tail'}))
    if not ok: print(out.get('demo_with_patch_tail', ''))
